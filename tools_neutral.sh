#!/bin/bash
# usage: neutral.sh C19 C15 ...  : apply /tmp/out-<ID>n/patch.diff to a scratch worktree and run ALL quick checks against it
cd /verif
for p in "$@"; do
  W=/tmp/neut-$p
  git -C /repo worktree remove --force $W 2>/dev/null; rm -rf $W-out
  git -C /repo worktree add -q --detach $W HEAD || continue
  if ! git -C $W apply /tmp/out-${p}n/patch.diff; then echo "=== $p PATCH DOES NOT APPLY"; git -C /repo worktree remove --force $W; continue; fi
  echo "=== $p $(date +%T)"
  (cd $W && GOFLAGS=-mod=mod GOPROXY=off GOSUMDB=off GOTOOLCHAIN=local go build -tags verif ./... 2>&1 | tail -3)
  for c in C01 C02 C03 C04 C05 C06 C07 C08 C09 C10 C11 C12 C13 C14 C15 C16 C17 C18 C19 C20; do
    out=$(VERIF_REPO=$W VERIF_OUT=$W-out ./check $c --tier quick 2>&1 | grep -a -v "^WARNING\|^KNOWN-FINDING")
    rc=$(echo "$out" | grep -a -c "^VIOLATION")
    inc=$(echo "$out" | grep -a -c "^INCONCLUSIVE")
    ok=$(echo "$out" | grep -a -c "^OK property=$c")
    if [ "$rc" != "0" ] || [ "$inc" != "0" ] || [ "$ok" != "1" ]; then echo "--- $p/$c: violations=$rc inconclusive=$inc ok=$ok"; echo "$out" | grep -a -v "^VIOLATION" | cut -c1-600 | head -8; mkdir -p /tmp/neutral-keep/$p-$c; cp -r $W-out/replays/$c /tmp/neutral-keep/$p-$c/ 2>/dev/null; fi
  done
  echo "=== $p done $(date +%T)"
  git -C /repo worktree remove --force $W; rm -rf $W-out
done

#!/usr/bin/env python3
"""Mechanical mutants as a complement to the agent-written seeded breakages.
usage: tools_mutants.py <per-file sample size> <seed> [file ...]
For every sampled single-line mutation of the listed library files (default: the files the properties
are anchored in): apply it in a scratch worktree; discard it if it does not compile or if the package's
own tests fail (the repository's suite kills it); otherwise run the quick checks mapped to the file
against it (VERIF_REPO/VERIF_OUT; /repo is never touched) and record which check, if any, reports a
violation. Survivors are either equivalent mutants or gaps; they are listed with their diff for triage.
Results: seeded/mutants/results-<seed>.jsonl (one JSON object per mutant that survived the repo's tests).
"""
import sys, os, re, json, random, subprocess, shutil, time
N = int(sys.argv[1]); SEED = int(sys.argv[2]); FILES = sys.argv[3:]
ENV = dict(os.environ, GOFLAGS="-mod=mod", GOPROXY="off", GOSUMDB="off", GOTOOLCHAIN="local")
MAP = {
 "stats.go": ["C01","C02","C03","C10","C11","C20"],
 "scope.go": ["C01","C03","C04","C05","C06","C07","C08","C09","C10","C11","C20"],
 "scope_registry.go": ["C01","C05","C06","C07","C08","C09","C11"],
 "key_gen.go": ["C05","C04"],
 "sanitize.go": ["C06","C04"],
 "histogram.go": ["C03","C20","C11"],
 "types.go": ["C10"],
 "instrument/call.go": ["C10"],
 "internal/identity/accumulator.go": ["C20","C13"],
 "internal/cache/tag_cache.go": ["C13"],
 "internal/cache/string_intern.go": ["C13"],
 "m3/reporter.go": ["C12","C13","C14","C15"],
 "m3/resource_pool.go": ["C13","C12"],
 "m3/thriftudp/transport.go": ["C15"],
 "m3/thriftudp/multitransport.go": ["C15","C13"],
 "m3/customtransports/m3_calc_transport.go": ["C16","C12"],
 "thirdparty/github.com/apache/thrift/lib/go/thrift/compact_protocol.go": ["C16","C13"],
 "thirdparty/github.com/apache/thrift/lib/go/thrift/binary_protocol.go": ["C16","C13"],
 "multi/reporter.go": ["C19"],
 "statsd/reporter.go": ["C18"],
 "prometheus/reporter.go": ["C17"],
}
if not FILES: FILES = list(MAP)
def sh(cmd, cwd=None, timeout=900, env=ENV):
    try:
        p = subprocess.run(cmd, shell=True, cwd=cwd, env=env, stdout=subprocess.PIPE, stderr=subprocess.STDOUT, text=True, errors="replace", timeout=timeout)
        return p.returncode, p.stdout
    except subprocess.TimeoutExpired:
        return -9, "timeout"
OPS = [
 (r"<=", "<"), (r">=", ">"), (r"(?<![<>=!])<(?![=<-])", "<="), (r"(?<![<>=!-])>(?![=>])", ">="),
 (r"==", "!="), (r"!=", "=="), (r"&&", "||"), (r"\|\|", "&&"),
 (r"\+ 1\b", "+ 0"), (r"- 1\b", "- 0"), (r"\+1\b", "+0"), (r"-1\b", "-0"),
 (r"\breturn true\b", "return false"), (r"\breturn false\b", "return true"),
 (r"\bi \+ 1\b", "i"), (r"\bi - 1\b", "i"), (r"\[i-1\]", "[i]"),
 (r"\.Load\(\)", ".Load() && false") ,
]
DELETABLE = re.compile(r"^\s*(delete\(|[A-Za-z_][\w.\[\]]*\.(Store|Reset|Inc|Dec|Add|Flush|Unlock|RUnlock|Close|clearMetrics|Done|Wait)\(|[A-Za-z_][\w.\[\]]* (=|\+=|-=) [^=]|break$|continue$|\w+\+\+$|\w+--$)")
def candidates(path, text):
    out = []
    lines = text.split("\n")
    in_block = False
    for i, line in enumerate(lines):
        code = line.split("//")[0]
        if "/*" in code: in_block = True
        if in_block:
            if "*/" in code: in_block = False
            continue
        s = code.strip()
        if not s or "verif" in code or s.startswith(("import", "package", "func ", "type ", "var ", "const ", "case ", "default:", '"')):
            continue
        if '"' in code and re.search(r'"[^"]*(<|>|=|&|\|)[^"]*"', code):
            continue
        for pat, rep in OPS:
            for m in re.finditer(pat, code):
                new = code[:m.start()] + rep + code[m.end():] + line[len(code):]
                out.append((i, "%s -> %s" % (pat, rep), new))
        if DELETABLE.match(code) and not s.endswith("{"):
            out.append((i, "delete statement", re.match(r"^\s*", line).group(0) + "// MUTANT: deleted: " + s))
    return out
wt = "/tmp/mut-wt-%d" % SEED
sh("git -C /repo worktree remove --force %s" % wt)
rc, out = sh("git -C /repo worktree add -q --detach %s HEAD" % wt); assert rc == 0, out
os.makedirs("/verif/seeded/mutants", exist_ok=True)
resf = open("/verif/seeded/mutants/results-%d.jsonl" % SEED, "a")
rnd = random.Random(SEED)
stats = {"sampled": 0, "no_compile": 0, "killed_by_repo_tests": 0, "killed_by_checks": 0, "survived": 0}
try:
    for f in FILES:
        p = os.path.join(wt, f)
        text = open(p).read()
        cands = candidates(f, text)
        rnd.shuffle(cands)
        pkg = "./" + os.path.dirname(f) if os.path.dirname(f) else "."
        taken = 0
        for (ln, op, newline) in cands:
            if taken >= N: break
            lines = text.split("\n")
            old = lines[ln]
            if old == newline: continue
            lines[ln] = newline
            open(p, "w").write("\n".join(lines))
            rc, out = sh("go build ./... && go vet -tags verif %s 2>&1 | grep -v '^#' | grep -i 'declared and not used\\|imported and not used' ; go build -tags verif ./..." % pkg, cwd=wt, timeout=300)
            rc2, _ = sh("go build ./... && go build -tags verif ./...", cwd=wt, timeout=300)
            if rc2 != 0:
                stats["no_compile"] += 1
                open(p, "w").write(text); continue
            taken += 1; stats["sampled"] += 1
            rc, out = sh("go test -vet=off -count=1 %s" % pkg, cwd=wt, timeout=240)
            if rc != 0 and "TestVerifyCachedTaggedScopesAlloc" in out and out.count("--- FAIL") == 1:
                rc, out = sh("go test -vet=off -count=1 %s" % pkg, cwd=wt, timeout=240)
            if rc != 0:
                stats["killed_by_repo_tests"] += 1
                open(p, "w").write(text); continue
            rec = {"file": f, "line": ln + 1, "op": op, "old": old.strip(), "new": newline.strip(), "checks": {}}
            killed = None
            for c in MAP[f]:
                o = "/tmp/mut-out-%d" % SEED
                shutil.rmtree(o, ignore_errors=True)
                env = dict(ENV, VERIF_REPO=wt, VERIF_OUT=o)
                rc, out = sh("./check %s --tier quick" % c, cwd="/verif", timeout=1800, env=env)
                rec["checks"][c] = {0: "OK", 1: "VIOLATION", 2: "INCONCLUSIVE"}.get(rc, str(rc))
                if rc == 1:
                    m = re.search(r"---- violation in mode (\S+) ----\n(.*)", out)
                    rec["killed_by"] = c; rec["message"] = (m.group(1) + ": " + m.group(2))[:300] if m else ""
                    killed = c; break
            if killed: stats["killed_by_checks"] += 1
            else: stats["survived"] += 1; rec["survived"] = True
            resf.write(json.dumps(rec) + "\n"); resf.flush()
            print(json.dumps({k: rec.get(k) for k in ("file", "line", "op", "old", "new", "killed_by", "survived")}), flush=True)
            open(p, "w").write(text)
finally:
    sh("git -C /repo worktree remove --force %s" % wt)
    shutil.rmtree("/tmp/mut-out-%d" % SEED, ignore_errors=True)
print("SUMMARY", json.dumps(stats))

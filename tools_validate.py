#!/usr/bin/env python3
# validate MANIFEST.json and evidence/*.json against the schemas (run with python3-vt)
import json, jsonschema, glob, sys
ok = True
try:
    jsonschema.validate(json.load(open('/verif/MANIFEST.json')), json.load(open('/root/.vp/MANIFEST.schema.json')))
except Exception as e:
    ok = False; print('MANIFEST:', e)
es = json.load(open('/root/.vp/EVIDENCE.schema.json'))
for f in sorted(glob.glob('/verif/evidence/*.json')):
    try:
        jsonschema.validate(json.load(open(f)), es)
    except Exception as e:
        ok = False; print(f, str(e)[:500])
man = json.load(open('/verif/MANIFEST.json'))
props = [json.loads(l)['id'] for l in open('/verif/properties.jsonl')]
claimed = {c['property_id'] for c in man['checks']}
na = {c['property_id'] for c in man.get('not_applicable', [])}
for p in props:
    if p not in claimed and p not in na:
        ok = False; print('property neither claimed nor not_applicable:', p)
print('valid' if ok else 'INVALID')
sys.exit(0 if ok else 1)

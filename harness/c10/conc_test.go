package c10

import (
	"fmt"
	"sort"
	"sync"
	"testing"
	"time"

	tally "github.com/uber-go/tally/v4"
	"pgregory.net/rapid"

	"verifharness/internal/pbt"
	"verifharness/internal/rec"
	"verifharness/internal/sched"
)

// ConcCase: several goroutines make FIRST use of timers with overlapping names
// on one scope (test scope, plain or cached reporter) at the same time and
// record unique durations through whatever handle they got, with report passes
// and (test scope) snapshots running alongside. Exactly-once delivery of every
// recorded value must not depend on which goroutine won the first-use race.
type ConcCase struct {
	Mode    string  `json:"mode"`    // test plain cached
	Workers [][]int `json:"workers"` // per goroutine: timer name indices, in order (each use = obtain by name + Record of a unique value)
	Sub     bool    `json:"sub"`     // on a subscope instead of the root
	Passes  int     `json:"passes"`
	Seed    uint64  `json:"seed"`
}

func genConc(t *rapid.T) ConcCase {
	c := ConcCase{Mode: rapid.SampledFrom([]string{"test", "test", "plain", "cached"}).Draw(t, "mode"), Sub: rapid.Bool().Draw(t, "sub"),
		Passes: rapid.IntRange(0, 3).Draw(t, "passes"), Seed: rapid.Uint64().Draw(t, "seed")}
	n := rapid.IntRange(2, 8).Draw(t, "nworkers")
	names := rapid.IntRange(1, 3).Draw(t, "nnames")
	for i := 0; i < n; i++ {
		c.Workers = append(c.Workers, rapid.SliceOfN(rapid.IntRange(0, names-1), 1, 6).Draw(t, "uses"))
	}
	return c
}

func runConc(c ConcCase) (pbt.Outcome, error) {
	var errs pbt.Errs
	var out pbt.Outcome
	log := &rec.Log{}
	var root tally.Scope
	var ts tally.TestScope
	switch c.Mode {
	case "plain":
		root, _ = tally.VerifNewRootScope(tally.ScopeOptions{Reporter: &rec.Stats{L: log}, OmitCardinalityMetrics: true}, 0, 0)
	case "cached":
		root, _ = tally.VerifNewRootScope(tally.ScopeOptions{CachedReporter: &rec.Cached{L: log}, OmitCardinalityMetrics: true}, 0, 0)
	default:
		ts = tally.NewTestScope("", nil)
		root = ts
	}
	sc := root
	prefix := ""
	if c.Sub {
		sc = root.SubScope("s")
		prefix = "s."
	}
	f := sched.NewFree(c.Seed)
	tally.VerifSetHooks(&tally.VerifHooks{Yield: f.Yield, Lock: f.Lock})
	defer tally.VerifSetHooks(nil)
	var mu sync.Mutex
	want := map[string][]int64{}
	var wg sync.WaitGroup
	start := make(chan struct{})
	var pmu sync.Mutex
	var panics []string
	for wi, uses := range c.Workers {
		wi, uses := wi, uses
		wg.Add(1)
		go func() {
			defer wg.Done()
			defer func() {
				if p := recover(); p != nil {
					pmu.Lock()
					panics = append(panics, fmt.Sprintf("worker %d: %v", wi, p))
					pmu.Unlock()
				}
			}()
			<-start
			for ui, ni := range uses {
				name := fmt.Sprintf("t%d", ni)
				d := int64(wi+1)*1000 + int64(ui) + 1 // unique
				sc.Timer(name).Record(time.Duration(d))
				mu.Lock()
				want[prefix+name] = append(want[prefix+name], d)
				mu.Unlock()
			}
		}()
	}
	wg.Add(1)
	go func() {
		defer wg.Done()
		<-start
		for p := 0; p < c.Passes; p++ {
			if ts != nil {
				_ = ts.Snapshot()
			} else {
				tally.VerifReportOnce(root)
			}
		}
	}()
	close(start)
	wg.Wait()
	tally.VerifSetHooks(nil)
	for _, p := range panics {
		errs.Addf("panic: %s", p)
	}
	got := map[string][]int64{}
	if ts != nil {
		for _, tm := range ts.Snapshot().Timers() {
			for _, v := range tm.Values() {
				got[tm.Name()] = append(got[tm.Name()], int64(v))
			}
		}
	} else {
		tally.VerifReportOnce(root)
		for _, e := range log.Events() {
			if e.Kind == rec.KTimer {
				got[e.Name] = append(got[e.Name], e.I)
			}
		}
	}
	shared := false
	for name, w := range want {
		g := append([]int64(nil), got[name]...)
		ws := append([]int64(nil), w...)
		sort.Slice(g, func(i, j int) bool { return g[i] < g[j] })
		sort.Slice(ws, func(i, j int) bool { return ws[i] < ws[j] })
		if fmt.Sprint(g) != fmt.Sprint(ws) {
			errs.Addf("timer %s (%s scope): recorded %v, delivered %v - each Record must result in exactly one delivery whichever goroutine made the first use", name, c.Mode, ws, g)
		}
	}
	for name := range got {
		if _, ok := want[name]; !ok {
			errs.Addf("timer %s delivered %v but nothing was recorded under that name", name, got[name])
		}
	}
	seen := map[int]int{}
	for wi, uses := range c.Workers {
		for _, ni := range uses {
			if prev, ok := seen[ni]; ok && prev != wi {
				shared = true
			}
			seen[ni] = wi
		}
	}
	out.NonTrivial = shared
	out.Classes = append(out.Classes, c.Mode, fmt.Sprintf("workers=%d", len(c.Workers)))
	return out, errs.Err()
}

func TestConcurrent(t *testing.T) {
	pbt.Main(t, pbt.Prop[ConcCase]{
		ID: "C10", Name: "concurrent",
		Rule: "free-running mode (real parallelism, built with -race, seeded Gosched perturbation at the verif hooks): 2..8 goroutines make first use of timers with 1..3 overlapping names on one scope (reporter-less test scope, plain or cached reporter; root or subscope) and record unique durations through the handle they get, while another goroutine runs report passes / snapshots. Oracle: per timer name the multiset of delivered durations (Snapshot().Timers() values, or ReportTimer calls) equals the multiset recorded - exactly one delivery per Record whichever goroutine won the first-use race; no panic; no race report. Non-trivial: two goroutines use the same name. The program is replayable, the schedule is not (replays retried).",
		Gen:  genConc, Run: runConc, Retries: 40, HangAfter: 60 * time.Second,
	})
}

// C10: timers are forwarded immediately, exactly once; stopwatches measure
// elapsed time; instrumented calls run once and count one outcome.
package c10

import (
	"context"
	"errors"
	"fmt"
	"io"
	"os"
	"testing"
	"time"

	tally "github.com/uber-go/tally/v4"
	"github.com/uber-go/tally/v4/instrument"
	"pgregory.net/rapid"

	"verifharness/internal/model"
	"verifharness/internal/pbt"
	"verifharness/internal/rec"
)

type ScopeSpec struct {
	Sub  pbt.S `json:"sub,omitempty"`
	Tags pbt.M `json:"tags,omitempty"`
}

type Op struct {
	K string `json:"k"` // record pass stopwatch hstopwatch exec close reobtain
	// close: Close() the scope of timer T (subscopes only; the handle is kept and used further);
	// reobtain: ask that scope handle - closed or not - for timer T again (a new name after a close
	// included) and use the returned handle from now on
	T     int   `json:"t,omitempty"`
	D     int64 `json:"d,omitempty"`
	Pause int   `json:"pause,omitempty"` // microseconds
	Fail  bool  `json:"fail,omitempty"`
	// which non-nil error a failing instrumented function returns (see execErrors)
	ErrKind int `json:"errKind,omitempty"`
	// stopwatch: Offset != 0 builds the stopwatch with tally.NewStopwatch from a caller-supplied start
	// time, Offset ns BEFORE now (negative: a start time in the future); the elapsed time recorded by
	// Stop is now - start whatever its sign
	Offset int64 `json:"offset,omitempty"`
}

// a typed error whose Is() matches everything, and a nil pointer of it inside a non-nil interface
type anyErr struct{ msg string }

func (e *anyErr) Error() string   { return "anyErr" }
func (e *anyErr) Is(error) bool   { return true }
func (e *anyErr) Timeout() bool   { return true }
func (e *anyErr) Temporary() bool { return true }

// every one of these is a non-nil error: the call failed, whatever the error says about itself
var execErrors = []error{
	errors.New("sentinel"),
	context.Canceled,
	context.DeadlineExceeded,
	io.EOF,
	fmt.Errorf("rpc: %w", context.Canceled),
	fmt.Errorf("outer: %w", fmt.Errorf("inner: %w", context.DeadlineExceeded)),
	os.ErrNotExist,
	io.ErrUnexpectedEOF,
	&anyErr{},
	(*anyErr)(nil),
	errors.New(""),
}

type Case struct {
	Mode   string      `json:"mode"` // plain cached both test
	Scopes []ScopeSpec `json:"scopes"`
	Timers []struct {
		Scope int   `json:"scope"`
		Name  pbt.S `json:"name"`
	} `json:"timers"`
	Ops []Op `json:"ops"`
	// Caps: what the recording reporters say about themselves (rec.CapsOf): advisory only
	Caps int `json:"caps,omitempty"`
	// the root's own prefix, separator (roots with a reporter only; empty: the default ".") and tags
	RootPrefix string            `json:"rootPrefix,omitempty"`
	Sep        string            `json:"sep,omitempty"`
	RootTags   map[string]string `json:"rootTags,omitempty"`
	// NullPlain (mode both): the plain reporter is the library's own tally.NullStatsReporter - what
	// goes to the plain reporter is dropped, timers still reach the cached reporter at once, once,
	// under their scope's name and tags
	NullPlain bool `json:"nullPlain,omitempty"`
}

func gen(t *rapid.T) Case {
	c := Case{Mode: rapid.SampledFrom([]string{"plain", "cached", "both", "test"}).Draw(t, "mode")}
	c.Caps = rapid.SampledFrom([]int{0, 0, 0, 1, 2, 3}).Draw(t, "caps")
	c.NullPlain = c.Mode == "both" && rapid.IntRange(0, 2).Draw(t, "nullPlain") == 0
	if rapid.IntRange(0, 2).Draw(t, "rootcfg?") == 0 {
		c.RootPrefix = rapid.SampledFrom([]string{"", "svc", "a.b", "x_"}).Draw(t, "rootPrefix")
		if c.Mode != "test" {
			c.Sep = rapid.SampledFrom([]string{"", ".", "_", ":", "/", "::"}).Draw(t, "sep")
		}
		if rapid.Bool().Draw(t, "roottags") {
			c.RootTags = map[string]string{"env": "t", "dc": ""}
		}
	}
	ns := rapid.IntRange(1, 3).Draw(t, "nscopes")
	for i := 0; i < ns; i++ {
		var s ScopeSpec
		if rapid.Bool().Draw(t, "hasSub") {
			s.Sub = pbt.PlainString().Draw(t, "sub")
		}
		if rapid.Bool().Draw(t, "hasTags") {
			s.Tags = pbt.M{pbt.PlainString().Draw(t, "k"): pbt.PlainString().Draw(t, "v")}
		}
		c.Scopes = append(c.Scopes, s)
	}
	nt := rapid.IntRange(1, 4).Draw(t, "ntimers")
	for i := 0; i < nt; i++ {
		c.Timers = append(c.Timers, struct {
			Scope int   `json:"scope"`
			Name  pbt.S `json:"name"`
		}{rapid.IntRange(0, ns-1).Draw(t, "scope"), pbt.S(fmt.Sprintf("t%d", rapid.IntRange(0, 2).Draw(t, "name")))})
	}
	no := rapid.IntRange(1, 16).Draw(t, "nops")
	slow := 0
	bursts := 0
	for i := 0; i < no; i++ {
		k := rapid.SampledFrom([]string{"record", "record", "record", "record", "pass", "pass", "stopwatch", "hstopwatch", "exec", "close", "reobtain", "reobtain", "burst"}).Draw(t, "k")
		if k == "burst" && (bursts > 0 || rapid.IntRange(0, 2).Draw(t, "burst?") != 0) {
			k = "record" // at most one long burst per case, in a third of the cases that draw it
		}
		op := Op{K: k, T: rapid.IntRange(0, nt-1).Draw(t, "t")}
		switch k {
		case "burst":
			// a long history on ONE timer: thousands of values (nothing may be dropped, thinned out or
			// capped - a reporter-less scope keeps every value for its snapshots)
			bursts++
			op.D = int64(rapid.IntRange(2049, 5000).Draw(t, "burstN"))
		case "record":
			op.D = pbt.AnyInt64().Draw(t, "d")
		case "stopwatch", "hstopwatch", "exec":
			if slow < 2 {
				op.Pause = rapid.SampledFrom([]int{0, 0, 50, 300, 1500}).Draw(t, "pause")
				if op.Pause > 0 {
					slow++
				}
			}
			op.Fail = rapid.Bool().Draw(t, "fail")
			if k == "stopwatch" && rapid.IntRange(0, 2).Draw(t, "given-start?") == 0 {
				op.Offset = rapid.SampledFrom([]int64{int64(time.Hour), -int64(time.Hour), int64(time.Millisecond), -int64(50 * time.Millisecond), -int64(24 * 365 * time.Hour), 1}).Draw(t, "offset")
			}
			if op.Fail && k == "exec" {
				op.ErrKind = rapid.IntRange(0, len(execErrors)-1).Draw(t, "errKind")
			}
		}
		c.Ops = append(c.Ops, op)
	}
	return c
}

var hbuckets = tally.DurationBuckets{0, 20 * time.Microsecond, 100 * time.Microsecond, 500 * time.Microsecond, time.Millisecond, 2 * time.Millisecond, 10 * time.Millisecond, 100 * time.Millisecond}

func run(c Case) (pbt.Outcome, error) {
	var errs pbt.Errs
	var out pbt.Outcome
	log := &rec.Log{}
	opts := tally.ScopeOptions{OmitCardinalityMetrics: true}
	var root tally.Scope
	var ts tally.TestScope
	switch c.Mode {
	case "plain":
		opts.Reporter = &rec.Stats{L: log, Caps: rec.CapsOf(c.Caps)}
	case "cached":
		opts.CachedReporter = &rec.Cached{L: log, Caps: rec.CapsOf(c.Caps)}
	case "both":
		opts.Reporter = &rec.Stats{L: log, Child: 1, Caps: rec.CapsOf(c.Caps)}
		opts.CachedReporter = &rec.Cached{L: log, Child: 2, Caps: rec.CapsOf(c.Caps)}
		if c.NullPlain {
			opts.Reporter = tally.NullStatsReporter
			out.Classes = append(out.Classes, "null-plain-reporter-and-a-cached-one")
		}
	}
	opts.Prefix, opts.Separator, opts.Tags = c.RootPrefix, c.Sep, c.RootTags
	if c.Mode == "test" {
		ts = tally.NewTestScope(c.RootPrefix, c.RootTags)
		root = ts
	} else {
		root, _ = tally.NewRootScope(opts, 0)
	}
	mroot := model.NewRoot(c.RootPrefix, c.Sep, c.RootTags, nil)
	if c.RootPrefix != "" || c.Sep != "" || len(c.RootTags) > 0 {
		out.Classes = append(out.Classes, "root-with-prefix-separator-or-tags")
	}
	scopes := make([]tally.Scope, len(c.Scopes))
	mscopes := make([]model.Scope, len(c.Scopes))
	for i, sp := range c.Scopes {
		s, ms := root, mroot
		if sp.Sub != "" {
			s, ms = s.SubScope(string(sp.Sub)), ms.Sub(string(sp.Sub))
		}
		if sp.Tags != nil {
			tg := sp.Tags.Std()
			s, ms = s.Tagged(tg), ms.Tagged(sp.Tags.Std())
			pbt.Spoil(tg) // the caller re-uses its map: the scope's tags must not follow
		}
		scopes[i], mscopes[i] = s, ms
	}
	timers := make([]tally.Timer, len(c.Timers))
	for i, tm := range c.Timers {
		timers[i] = scopes[tm.Scope].Timer(string(tm.Name))
	}
	timerID := func(i int) string {
		return rec.ID(mscopes[c.Timers[i].Scope].Metric(string(c.Timers[i].Name)), mscopes[c.Timers[i].Scope].Tags)
	}

	timerEvents := func(from int) []rec.Event {
		var r []rec.Event
		for _, e := range log.Events()[from:] {
			if e.Kind == rec.KTimer {
				r = append(r, e)
			}
		}
		return r
	}
	wantSnap := map[string][]time.Duration{}
	var held [][]time.Duration // Values() slices of earlier snapshots (test mode)
	distinctTimers := map[string]bool{}
	passBetween := false
	sawRecord := false
	closedAny := false
	closedScope := map[int]bool{}
	for oi, op := range c.Ops {
		before := log.Len()
		switch op.K {
		case "record":
			d := time.Duration(op.D)
			timers[op.T].Record(d)
			wantSnap[timerID(op.T)] = append(wantSnap[timerID(op.T)], d)
			distinctTimers[timerID(op.T)] = true
			sawRecord = true
			if c.Mode != "test" {
				ev := timerEvents(before)
				if len(ev) != 1 {
					errs.Addf("op %d: Record(%d) produced %d timer deliveries before returning, want exactly 1: %v", oi, d, len(ev), ev)
				} else {
					e := ev[0]
					if e.I != int64(d) || rec.ID(e.Name, e.Tags) != timerID(op.T) {
						errs.Addf("op %d: Record(%d) on %s delivered as %v", oi, d, timerID(op.T), e)
					}
					if (c.Mode == "cached" || c.Mode == "both") && e.Handle == 0 {
						errs.Addf("op %d: a cached reporter is configured (mode %s) but the timer value was not delivered through its cached handle (the cached path takes precedence over the plain one)", oi, c.Mode)
					}
				}
			}
		case "burst":
			n := int(op.D)
			if n < 1 || n > 20000 {
				n = 2049
			}
			for k := 0; k < n; k++ {
				d := time.Duration(k + 1)
				timers[op.T].Record(d)
				wantSnap[timerID(op.T)] = append(wantSnap[timerID(op.T)], d)
			}
			distinctTimers[timerID(op.T)] = true
			sawRecord = true
			if c.Mode != "test" {
				if ev := timerEvents(before); len(ev) != n {
					errs.Addf("op %d: a burst of %d Records produced %d timer deliveries", oi, n, len(ev))
				}
			}
		case "close":
			si := c.Timers[op.T].Scope
			if c.Scopes[si].Sub == "" && c.Scopes[si].Tags == nil {
				continue // the root's Close is C08's subject
			}
			if cl, ok := scopes[si].(interface{ Close() error }); ok {
				_ = cl.Close()
				closedAny = true
				for j := range scopes {
					if scopes[j] == scopes[si] {
						closedScope[j] = true // several specs may denote the same scope object
					}
				}
			}
		case "reobtain":
			timers[op.T] = scopes[c.Timers[op.T].Scope].Timer(string(c.Timers[op.T].Name))
		case "pass":
			if c.Mode != "test" {
				tally.VerifReportOnce(root)
				if ev := timerEvents(before); len(ev) != 0 {
					errs.Addf("op %d: a report pass delivered timer values: %v", oi, ev)
				}
				if sawRecord {
					passBetween = true
				}
			} else {
				// a report pass over a reporter-less scope has nobody to deliver to and nothing to drop:
				// the values stay in the snapshots (a reporter-less root with an interval runs such passes)
				tally.VerifReportOnce(root)
			}
		case "stopwatch":
			t0 := time.Now()
			var sw tally.Stopwatch
			given := false
			if r, ok := timers[op.T].(tally.StopwatchRecorder); ok && op.Offset != 0 {
				sw, given = tally.NewStopwatch(t0.Add(-time.Duration(op.Offset)), r), true
			} else {
				sw = timers[op.T].Start()
			}
			t1 := time.Now()
			if op.Pause > 0 {
				time.Sleep(time.Duration(op.Pause) * time.Microsecond)
			}
			t2 := time.Now()
			sw.Stop()
			t3 := time.Now()
			lo, hi := t2.Sub(t1), t3.Sub(t0)
			if given {
				lo, hi = time.Duration(op.Offset)+t2.Sub(t0), time.Duration(op.Offset)+t3.Sub(t0)
			}
			distinctTimers[timerID(op.T)] = true
			if c.Mode != "test" {
				ev := timerEvents(before)
				if len(ev) != 1 {
					errs.Addf("op %d: stopwatch produced %d timer deliveries, want 1", oi, len(ev))
				} else if d := time.Duration(ev[0].I); d < lo || d > hi || rec.ID(ev[0].Name, ev[0].Tags) != timerID(op.T) {
					errs.Addf("op %d: stopwatch recorded %v under %s, elapsed time was within [%v,%v] for %s", oi, d, rec.ID(ev[0].Name, ev[0].Tags), lo, hi, timerID(op.T))
				}
			} else {
				// what earlier snapshots handed out is the caller's: overwritten and appended to here, it
				// must not change what the timers have recorded
				for hi, v := range held {
					for i := range v {
						v[i] = -777
					}
					held[hi] = append(v, -778)
				}
				vals := ts.Snapshot().Timers()[tally.KeyForPrefixedStringMap(mscopes[c.Timers[op.T].Scope].Metric(string(c.Timers[op.T].Name)), mscopes[c.Timers[op.T].Scope].Tags)]
				if vals != nil {
					held = append(held, vals.Values())
				}
				if vals == nil || len(vals.Values()) != len(wantSnap[timerID(op.T)])+1 {
					errs.Addf("op %d: stopwatch value missing from snapshot", oi)
				} else if d := vals.Values()[len(vals.Values())-1]; d < lo || d > hi {
					errs.Addf("op %d: stopwatch recorded %v, elapsed within [%v,%v]", oi, d, lo, hi)
				} else {
					wantSnap[timerID(op.T)] = append(wantSnap[timerID(op.T)], d)
				}
			}
		case "hstopwatch":
			if closedScope[c.Timers[op.T].Scope] {
				continue // counters and histogram samples recorded on a closed scope are don't-care (C07); only timers forward immediately
			}
			if c.Mode == "both" {
				continue
			}
			name := fmt.Sprintf("hsw%d", oi)
			h := scopes[c.Timers[op.T].Scope].Histogram(name, hbuckets)
			t0 := time.Now()
			sw := h.Start()
			t1 := time.Now()
			if op.Pause > 0 {
				time.Sleep(time.Duration(op.Pause) * time.Microsecond)
			}
			t2 := time.Now()
			sw.Stop()
			t3 := time.Now()
			lo, hi := t2.Sub(t1), t3.Sub(t0)
			if c.Mode == "test" {
				// a reporter-less scope: the sample is looked up in the snapshot
				ms := mscopes[c.Timers[op.T].Scope]
				hs := ts.Snapshot().Histograms()[tally.KeyForPrefixedStringMap(ms.Metric(name), ms.Tags)]
				if hs == nil {
					errs.Addf("op %d: histogram %q of the stopwatch is not in the snapshot", oi, ms.Metric(name))
					continue
				}
				pairs := model.DurationPairs([]time.Duration(hbuckets))
				bl, bh := model.DurationBucketOf(pairs, lo), model.DurationBucketOf(pairs, hi)
				var n int64
				for up, cnt := range hs.Durations() {
					n += cnt
					if cnt != 0 && (up < bl || up > bh) {
						errs.Addf("op %d: histogram stopwatch sample in bucket <=%v, elapsed within [%v,%v]", oi, up, lo, hi)
					}
				}
				if n != 1 {
					errs.Addf("op %d: histogram stopwatch left %d samples in the snapshot, want one", oi, n)
				}
				continue
			}
			mark := log.Len()
			tally.VerifReportOnce(root)
			var got []rec.Event
			for _, e := range log.Events()[mark:] {
				if e.Kind == rec.KHDuration && e.Name == mscopes[c.Timers[op.T].Scope].Metric(name) {
					got = append(got, e)
				}
			}
			if len(got) != 1 || got[0].I != 1 {
				errs.Addf("op %d: histogram stopwatch delivered %v, want one sample", oi, got)
			} else {
				pairs := model.DurationPairs([]time.Duration(hbuckets))
				bl, bh := model.DurationBucketOf(pairs, lo), model.DurationBucketOf(pairs, hi)
				if got[0].DHi < bl || got[0].DHi > bh {
					errs.Addf("op %d: histogram stopwatch sample in bucket <=%v, elapsed within [%v,%v]", oi, got[0].DHi, lo, hi)
				}
			}
		case "exec":
			if closedScope[c.Timers[op.T].Scope] {
				continue // counters and histogram samples recorded on a closed scope are don't-care (C07); only timers forward immediately
			}
			name := fmt.Sprintf("call%d", oi)
			sc := scopes[c.Timers[op.T].Scope]
			ms := mscopes[c.Timers[op.T].Scope]
			call := instrument.NewCall(sc, name)
			calls := 0
			sentinel := execErrors[op.ErrKind%len(execErrors)]
			var slept time.Duration
			f := func() error {
				calls++
				if op.Pause > 0 {
					s0 := time.Now()
					time.Sleep(time.Duration(op.Pause) * time.Microsecond)
					slept = time.Since(s0)
				}
				if op.Fail {
					return sentinel
				}
				return nil
			}
			mark := log.Len()
			t0 := time.Now()
			err := call.Exec(f)
			t3 := time.Now()
			if calls != 1 {
				errs.Addf("op %d: instrumented function called %d times", oi, calls)
			}
			if op.Fail && err != sentinel || !op.Fail && err != nil {
				errs.Addf("op %d: Exec returned %v, function returned fail=%v", oi, err, op.Fail)
			}
			latName := ms.Sub(name).Metric("latency")
			if c.Mode == "test" {
				// a reporter-less scope: latency and counters are looked up in the snapshot
				snap := ts.Snapshot()
				lat := snap.Timers()[tally.KeyForPrefixedStringMap(latName, ms.Tags)]
				if lat == nil || len(lat.Values()) != 1 {
					errs.Addf("op %d: Exec left %v as latency %q in the snapshot, want one value", oi, lat, latName)
				} else if d := lat.Values()[0]; d < slept-time.Microsecond || d > t3.Sub(t0) {
					errs.Addf("op %d: Exec latency %v, want within [%v,%v]", oi, d, slept, t3.Sub(t0))
				}
				succ, fail := int64(0), int64(0)
				for _, e := range snap.Counters() {
					if e.Name() != ms.Metric(name) {
						continue
					}
					rest := map[string]string{}
					for k, v := range e.Tags() {
						if k != "result_type" {
							rest[k] = v
						}
					}
					if fmt.Sprint(rest) != fmt.Sprint(ms.Tags) {
						errs.Addf("op %d: call counter with tags %v, scope tags %v", oi, e.Tags(), ms.Tags)
					}
					switch e.Tags()["result_type"] {
					case "success":
						succ += e.Value()
					case "error":
						fail += e.Value()
					default:
						errs.Addf("op %d: call counter with tags %v", oi, e.Tags())
					}
				}
				if op.Fail && !(succ == 0 && fail == 1) || !op.Fail && !(succ == 1 && fail == 0) {
					errs.Addf("op %d: after Exec(fail=%v, error %#v): success=%d error=%d in the snapshot", oi, op.Fail, sentinel, succ, fail)
				}
				continue
			}
			ev := timerEvents(mark)
			if len(ev) != 1 {
				errs.Addf("op %d: Exec recorded %d latencies, want 1", oi, len(ev))
			} else if fmt.Sprint(ev[0].Tags) != fmt.Sprint(ms.Tags) && !(len(ev[0].Tags) == 0 && len(ms.Tags) == 0) {
				errs.Addf("op %d: Exec latency delivered with tags %v, scope tags %v", oi, ev[0].Tags, ms.Tags)
			} else if d := time.Duration(ev[0].I); ev[0].Name != latName || d < slept-time.Microsecond || d > t3.Sub(t0) {
				errs.Addf("op %d: Exec latency %v under %q, want within [%v,%v] under %q", oi, d, ev[0].Name, slept, t3.Sub(t0), latName)
			}
			if c.NullPlain {
				continue // the call's counters go to the plain reporter, which drops them
			}
			mark2 := log.Len()
			tally.VerifReportOnce(root)
			succ, fail := int64(0), int64(0)
			for _, e := range log.Events()[mark2:] {
				if e.Kind == rec.KCounter && e.Name == ms.Metric(name) {
					switch e.Tags["result_type"] {
					case "success":
						succ += e.I
					case "error":
						fail += e.I
					default:
						errs.Addf("op %d: call counter with tags %v", oi, e.Tags)
					}
				}
			}
			if op.Fail && !(succ == 0 && fail == 1) || !op.Fail && !(succ == 1 && fail == 0) {
				errs.Addf("op %d: after Exec(fail=%v, error %#v): success=%d error=%d", oi, op.Fail, sentinel, succ, fail)
			}
		}
	}
	if c.Mode == "test" {
		for hi, v := range held {
			for i := range v {
				v[i] = -777
			}
			held[hi] = append(v, -778)
		}
		snap := ts.Snapshot().Timers()
		for i := range c.Timers {
			key := tally.KeyForPrefixedStringMap(mscopes[c.Timers[i].Scope].Metric(string(c.Timers[i].Name)), mscopes[c.Timers[i].Scope].Tags)
			e, ok := snap[key]
			if !ok {
				errs.Addf("timer %s missing from snapshot", key)
				continue
			}
			if fmt.Sprint(e.Values()) != fmt.Sprint(wantSnap[timerID(i)]) && !(len(e.Values()) == 0 && len(wantSnap[timerID(i)]) == 0) {
				errs.Addf("snapshot timer %s values %v, recorded %v", key, e.Values(), wantSnap[timerID(i)])
			}
		}
	}
	out.NonTrivial = len(distinctTimers) >= 2 && (passBetween || c.Mode == "test")
	out.Classes = append(out.Classes, c.Mode)
	if closedAny {
		out.Classes = append(out.Classes, "recording-after-subscope-close")
	}
	return out, errs.Err()
}

func TestC10(t *testing.T) {
	pbt.Main(t, pbt.Prop[Case]{
		ID: "C10", Name: "timers",
		Rule: "(histories also Close the subscope of a timer and keep recording through old handles and through handles obtained from the closed scope afterwards: still exactly one delivery per Record) rapid-generated histories (1..16 ops) over 1..4 timers in 1..3 derived scopes: Record(d) with int64-extreme/zero/negative durations, report passes, timer stopwatches and duration-histogram stopwatches with 0..1.5 ms pauses (rationed), instrument.Call.Exec with succeeding/failing functions; plain reporter, cached reporter, both configured at once, or a reporter-less test scope; in a third of the cases the root has a prefix, tags and (with a reporter) a separator from {'.', '_', ':', '/', '::'}. Oracle: exactly one timer delivery inside each Record call with d, name, tags (through the handle when cached); passes deliver no timers; snapshot shows all values in order; stopwatch value bracketed by harness monotonic clock readings taken around Start/Stop; Exec: one call, same error, one latency with the scope's name and tags, exactly one of success/error +1 (on a test scope both stopwatch flavours and Exec are read from the snapshot). Non-trivial: >=2 distinct timers used and a report pass between records (or snapshot mode). Distinct: FNV-64 of the case JSON.",
		Gen:  gen, Run: run, HangAfter: 20 * time.Second,
	})
}

// C18: the StatsD reporter forwards each value once under a deterministic,
// distinct stat name.
package c18

import (
	"errors"
	"fmt"
	"math"
	"strconv"
	"strings"
	"testing"
	"time"

	cstatsd "github.com/cactus/go-statsd-client/v5/statsd"
	tally "github.com/uber-go/tally/v4"
	tstatsd "github.com/uber-go/tally/v4/statsd"
	"pgregory.net/rapid"

	"verifharness/internal/model"
	"verifharness/internal/pbt"
)

type call struct {
	method string
	name   string
	i      int64
	d      time.Duration
	rate   float32
	ntags  int
}

// fail: 0 every call returns nil; 1 every call is accepted (recorded) and STILL returns an error, as a
// fan-out client does when one of its back ends failed or a connected UDP socket reports the ICMP
// error of an earlier datagram; 2 every other call does. The reporter has no way to know whether a
// call that returned an error was applied, so "exactly one call per delta" holds regardless.
type recStatter struct {
	calls []call
	fail  int
}

var errStatter = errors.New("statter: reported an error for a call it accepted")

func (r *recStatter) add(m, n string, i int64, d time.Duration, rate float32, tags []cstatsd.Tag) error {
	r.calls = append(r.calls, call{m, n, i, d, rate, len(tags)})
	if r.fail == 1 || r.fail == 2 && len(r.calls)%2 == 1 {
		return errStatter
	}
	return nil
}
func (r *recStatter) Inc(n string, v int64, rate float32, t ...cstatsd.Tag) error {
	return r.add("Inc", n, v, 0, rate, t)
}
func (r *recStatter) Dec(n string, v int64, rate float32, t ...cstatsd.Tag) error {
	return r.add("Dec", n, v, 0, rate, t)
}
func (r *recStatter) Gauge(n string, v int64, rate float32, t ...cstatsd.Tag) error {
	return r.add("Gauge", n, v, 0, rate, t)
}
func (r *recStatter) GaugeDelta(n string, v int64, rate float32, t ...cstatsd.Tag) error {
	return r.add("GaugeDelta", n, v, 0, rate, t)
}
func (r *recStatter) Timing(n string, v int64, rate float32, t ...cstatsd.Tag) error {
	return r.add("Timing", n, v, 0, rate, t)
}
func (r *recStatter) TimingDuration(n string, d time.Duration, rate float32, t ...cstatsd.Tag) error {
	return r.add("TimingDuration", n, 0, d, rate, t)
}
func (r *recStatter) Set(n string, v string, rate float32, t ...cstatsd.Tag) error {
	return r.add("Set", n, 0, 0, rate, t)
}
func (r *recStatter) SetInt(n string, v int64, rate float32, t ...cstatsd.Tag) error {
	return r.add("SetInt", n, v, 0, rate, t)
}
func (r *recStatter) Raw(n string, v string, rate float32, t ...cstatsd.Tag) error {
	return r.add("Raw", n, 0, 0, rate, t)
}
func (r *recStatter) NewSubStatter(string) cstatsd.SubStatter {
	panic("harness: unexpected NewSubStatter")
}
func (r *recStatter) SetPrefix(string) { r.calls = append(r.calls, call{method: "SetPrefix"}) }
func (r *recStatter) Close() error     { r.calls = append(r.calls, call{method: "Close"}); return nil }

type Op struct {
	Kind    string  `json:"k"` // counter gauge timer vhist dhist
	Name    pbt.S   `json:"n"`
	Tags    pbt.M   `json:"t,omitempty"`
	I       int64   `json:"i,omitempty"`
	F       pbt.F   `json:"f,omitempty"`
	VSpec   []pbt.F `json:"vs,omitempty"`
	DSpec   []int64 `json:"ds,omitempty"`
	Samples []int64 `json:"s,omitempty"`
}

type Case struct {
	RateBits  uint32 // float32 bits; 0 = unset
	Precision uint
	Ops       []Op
	Fail      int `json:",omitempty"` // see recStatter
}

func gen(t *rapid.T) Case {
	var c Case
	switch rapid.IntRange(0, 3).Draw(t, "ratek") {
	case 0:
		c.RateBits = 0
	case 1:
		c.RateBits = math.Float32bits(1)
	default:
		r := float32(rapid.Float64Range(1e-6, 1).Draw(t, "rate"))
		if r <= 0 || r > 1 {
			r = 0.5
		}
		c.RateBits = math.Float32bits(r)
	}
	c.Precision = uint(rapid.IntRange(0, 12).Draw(t, "prec"))
	c.Fail = rapid.SampledFrom([]int{0, 0, 1, 2}).Draw(t, "fail")
	n := rapid.IntRange(1, 8).Draw(t, "nops")
	for i := 0; i < n; i++ {
		op := Op{Kind: rapid.SampledFrom([]string{"counter", "gauge", "timer", "vhist", "vhist", "dhist"}).Draw(t, "kind")}
		op.Name = pbt.AnyString().Draw(t, "name")
		op.Tags = pbt.MapOf(pbt.AnyString(), pbt.AnyString(), 2).Draw(t, "tags")
		switch op.Kind {
		case "counter", "timer":
			op.I = pbt.AnyInt64().Draw(t, "i")
		case "gauge":
			op.F = pbt.AnyFloat().Draw(t, "f")
		case "vhist":
			op.VSpec = rapid.SliceOfN(specFloat(), 0, 8).Draw(t, "vspec")
		case "dhist":
			op.DSpec = rapid.SliceOfN(pbt.AnyInt64(), 0, 8).Draw(t, "dspec")
		}
		if op.Kind == "vhist" || op.Kind == "dhist" {
			m := len(op.VSpec) + len(op.DSpec) + 1
			for j := 0; j < m; j++ {
				op.Samples = append(op.Samples, pbt.AnyInt64().Draw(t, "samples"))
			}
		}
		c.Ops = append(c.Ops, op)
	}
	return c
}

// specFloat: finite bounds, biased to values that collide or nearly collide
// at low precisions.
func specFloat() *rapid.Generator[pbt.F] {
	return rapid.Custom(func(t *rapid.T) pbt.F {
		switch rapid.IntRange(0, 6).Draw(t, "sfk") {
		case 0, 1:
			return pbt.FOf(float64(rapid.IntRange(-2000, 2000).Draw(t, "milli")) / 1000)
		case 2:
			return pbt.FOf(float64(rapid.IntRange(-20, 20).Draw(t, "e")) * 1e-7)
		case 3:
			return pbt.FOf(rapid.SampledFrom([]float64{0, math.Copysign(0, -1), math.MaxFloat64, -math.MaxFloat64, 1e300, -1e300, 0.5, 0.05, 0.005, 1e-13}).Draw(t, "h"))
		case 4:
			// integer/float boundaries: +-2^k and +-10^k, or the float64 right below or above
			var v float64
			if rapid.Bool().Draw(t, "pow2") {
				v = math.Ldexp(1, rapid.SampledFrom([]int{24, 31, 32, 52, 53, 54, 62, 63, 64, 65, 100, 1023}).Draw(t, "k2"))
			} else {
				v = math.Pow(10, float64(rapid.SampledFrom([]int{9, 15, 16, 18, 19, 20, 21, 22, 100}).Draw(t, "k10")))
			}
			switch rapid.IntRange(0, 3).Draw(t, "nb") {
			case 0:
				v = math.Nextafter(v, 0)
			case 1:
				v = math.Nextafter(v, math.Inf(1))
			}
			if rapid.Bool().Draw(t, "neg") {
				v = -v
			}
			return pbt.FOf(v)
		default:
			return pbt.FiniteFloat().Draw(t, "ff")
		}
	})
}

func refValue(v float64, prec int) string {
	if v == math.MaxFloat64 {
		return "infinity"
	}
	if v == -math.MaxFloat64 {
		return "-infinity"
	}
	return strconv.FormatFloat(v, 'f', prec, 64)
}

// refValues are the acceptable renderings of a bound: the exact fixed-precision rendering, and - for
// a bound that renders as a negative zero ("-0.000") - also the same digits without the sign: -0 and
// +0 are the same bound, and the property does not say which spelling of zero is used.
func refValues(v float64, prec int) []string {
	s := refValue(v, prec)
	if strings.HasPrefix(s, "-") && strings.Trim(s, "-0.") == "" {
		return []string{s, s[1:]}
	}
	return []string{s}
}

func refDuration(d time.Duration) string {
	if d == time.Duration(math.MaxInt64) {
		return "infinity"
	}
	if d == time.Duration(math.MinInt64) {
		return "-infinity"
	}
	return d.String()
}

func run(c Case) (pbt.Outcome, error) {
	var errs pbt.Errs
	var out pbt.Outcome
	st := &recStatter{fail: c.Fail}
	rate := math.Float32frombits(c.RateBits)
	r := tstatsd.NewReporter(st, tstatsd.Options{SampleRate: rate, HistogramBucketNamePrecision: c.Precision})
	wantRate := rate
	if c.RateBits == 0 {
		wantRate = 1
	}
	prec := int(c.Precision)
	if prec == 0 {
		prec = 6
	}
	if cp := r.Capabilities(); !cp.Reporting() || cp.Tagging() {
		errs.Addf("capabilities = (%v,%v), want (true,false)", cp.Reporting(), cp.Tagging())
	}
	expectOne := func(what string, before int) (call, bool) {
		got := st.calls[before:]
		if len(got) != 1 {
			errs.Addf("%s: %d client calls, want exactly 1: %+v", what, len(got), got)
			return call{}, false
		}
		if math.Float32bits(got[0].rate) != math.Float32bits(wantRate) {
			errs.Addf("%s: sample rate %v, want %v", what, got[0].rate, wantRate)
		}
		if got[0].ntags != 0 {
			errs.Addf("%s: %d statsd tags passed, tags must be ignored", what, got[0].ntags)
		}
		return got[0], true
	}
	for _, op := range c.Ops {
		name := string(op.Name)
		tags := op.Tags.Std()
		before := len(st.calls)
		switch op.Kind {
		case "counter":
			r.ReportCounter(name, tags, op.I)
			if g, ok := expectOne("ReportCounter", before); ok && (g.method != "Inc" || g.name != name || g.i != op.I) {
				errs.Addf("ReportCounter(%q,%d) -> %s(%q,%d)", name, op.I, g.method, g.name, g.i)
			}
		case "gauge":
			v := op.F.V()
			r.ReportGauge(name, tags, v)
			if g, ok := expectOne("ReportGauge", before); ok {
				if g.method != "Gauge" || g.name != name {
					errs.Addf("ReportGauge(%q,%v) -> %s(%q,%d)", name, v, g.method, g.name, g.i)
				} else if !math.IsNaN(v) && !math.IsInf(v, 0) && math.Abs(v) < 9.2e18 && g.i != int64(v) {
					errs.Addf("ReportGauge(%q,%v) -> Gauge value %d, want %d (truncation)", name, v, g.i, int64(v))
				}
			}
		case "timer":
			d := time.Duration(op.I)
			r.ReportTimer(name, tags, d)
			if g, ok := expectOne("ReportTimer", before); ok {
				okv := (g.method == "TimingDuration" && g.d == d) || (g.method == "Timing" && d%time.Millisecond == 0 && g.i == int64(d/time.Millisecond))
				if !okv || g.name != name {
					errs.Addf("ReportTimer(%q,%v) -> %s(%q,%d,%v)", name, d, g.method, g.name, g.i, g.d)
				}
			}
		case "vhist":
			spec := make([]float64, len(op.VSpec))
			for i, f := range op.VSpec {
				spec[i] = f.V()
			}
			pairs := model.ValuePairs(spec)
			names := make([]string, len(pairs))
			for i, p := range pairs {
				b := len(st.calls)
				r.ReportHistogramValueSamples(name, tags, tally.ValueBuckets(spec), p.Lo, p.Hi, op.Samples[i%len(op.Samples)])
				want := fmt.Sprintf("%s.%s-%s", name, refValue(p.Lo, prec), refValue(p.Hi, prec))
				if g, ok := expectOne("ReportHistogramValueSamples", b); ok {
					names[i] = g.name
					nameOK := false
					for _, lo := range refValues(p.Lo, prec) {
						for _, hi := range refValues(p.Hi, prec) {
							if g.name == fmt.Sprintf("%s.%s-%s", name, lo, hi) {
								nameOK = true
							}
						}
					}
					if g.method != "Inc" || !nameOK || g.i != op.Samples[i%len(op.Samples)] {
						errs.Addf("value bucket [%v,%v] prec %d -> %s(%q,%d), want Inc(%q,%d)", p.Lo, p.Hi, prec, g.method, g.name, g.i, want, op.Samples[i%len(op.Samples)])
					}
				}
			}
			for i := range pairs {
				for j := i + 1; j < len(pairs); j++ {
					di := refValue(pairs[i].Lo, prec) != refValue(pairs[j].Lo, prec) || refValue(pairs[i].Hi, prec) != refValue(pairs[j].Hi, prec)
					if di && names[i] == names[j] {
						errs.Addf("buckets %v and %v differ at precision %d but share stat name %q", pairs[i], pairs[j], prec, names[i])
					}
				}
			}
			if len(pairs) >= 3 {
				out.NonTrivial = true
			}
		case "dhist":
			spec := make([]time.Duration, len(op.DSpec))
			for i, d := range op.DSpec {
				spec[i] = time.Duration(d)
			}
			pairs := model.DurationPairs(spec)
			names := make([]string, len(pairs))
			for i, p := range pairs {
				b := len(st.calls)
				r.ReportHistogramDurationSamples(name, tags, tally.DurationBuckets(spec), p.Lo, p.Hi, op.Samples[i%len(op.Samples)])
				want := fmt.Sprintf("%s.%s-%s", name, refDuration(p.Lo), refDuration(p.Hi))
				if g, ok := expectOne("ReportHistogramDurationSamples", b); ok {
					names[i] = g.name
					if g.method != "Inc" || g.name != want || g.i != op.Samples[i%len(op.Samples)] {
						errs.Addf("duration bucket [%d,%d] -> %s(%q,%d), want Inc(%q,...)", p.Lo, p.Hi, g.method, g.name, g.i, want)
					}
				}
			}
			for i := range pairs {
				for j := i + 1; j < len(pairs); j++ {
					if pairs[i] != pairs[j] && names[i] == names[j] {
						errs.Addf("duration buckets %v and %v differ but share stat name %q", pairs[i], pairs[j], names[i])
					}
				}
			}
			if len(pairs) >= 3 {
				out.NonTrivial = true
			}
		}
	}
	before := len(st.calls)
	r.Flush()
	if len(st.calls) != before {
		errs.Addf("Flush made client calls: %+v", st.calls[before:])
	}
	out.Classes = append(out.Classes, fmt.Sprintf("prec=%d", c.Precision))
	return out, errs.Err()
}

func TestC18(t *testing.T) {
	pbt.Main(t, pbt.Prop[Case]{
		ID: "C18", Name: "statsd",
		Rule: "rapid-generated reporter configurations (sample rate unset/1/(0,1], precision unset/1..12) and call lists (1..8 calls: counters, gauges, timers with hostile int64/float64 values and arbitrary byte-string names; value and duration histograms with 0..8 bounds (milli-steps, 1e-7 steps, hostile constants, +-2^k and +-10^k at the integer/float conversion boundaries and their float64 neighbours, any finite float) whose every bucket pair from the reference tiling is reported); a recording Statter must see exactly one call per reporter call with the reference-rendered name, value and rate, and buckets that differ at the precision must not share a name. Non-trivial: a histogram with >=3 buckets (both open ends included). Distinct: FNV-64 of the case JSON.",
		Gen:  gen, Run: run, HangAfter: 20 * time.Second,
	})
}

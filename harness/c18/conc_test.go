package c18

import (
	"fmt"
	"sync"
	"testing"
	"time"

	cstatsd "github.com/cactus/go-statsd-client/v5/statsd"
	tally "github.com/uber-go/tally/v4"
	tstatsd "github.com/uber-go/tally/v4/statsd"
	"pgregory.net/rapid"

	"verifharness/internal/model"
	"verifharness/internal/pbt"
)

// ConcCase: one StatsD reporter shared by several goroutines (two root scopes given the same
// reporter, each with its own report loop, do exactly this). Every call still results in exactly
// one client call with that call's own name and value. Run under the race detector.
type ConcCase struct {
	Precision uint      `json:"precision"`
	Workers   int       `json:"workers"`
	PerWorker int       `json:"perWorker"`
	Spec      []float64 `json:"spec"`
}

func genConc(t *rapid.T) ConcCase {
	c := ConcCase{Precision: uint(rapid.IntRange(0, 8).Draw(t, "prec")), Workers: rapid.IntRange(2, 8).Draw(t, "workers"), PerWorker: rapid.IntRange(50, 400).Draw(t, "per")}
	n := rapid.IntRange(1, 5).Draw(t, "nb")
	for i := 0; i < n; i++ {
		c.Spec = append(c.Spec, float64(rapid.IntRange(-50, 50).Draw(t, "b"))/4)
	}
	return c
}

type lockedStatter struct {
	mu    sync.Mutex
	calls map[string][]int64 // stat name -> values, any order
}

func (s *lockedStatter) note(m, n string, v int64) error {
	s.mu.Lock()
	s.calls[m+" "+n] = append(s.calls[m+" "+n], v)
	s.mu.Unlock()
	return nil
}
func (s *lockedStatter) Inc(n string, v int64, r float32, t ...cstatsd.Tag) error {
	return s.note("Inc", n, v)
}
func (s *lockedStatter) Dec(n string, v int64, r float32, t ...cstatsd.Tag) error {
	return s.note("Dec", n, v)
}
func (s *lockedStatter) Gauge(n string, v int64, r float32, t ...cstatsd.Tag) error {
	return s.note("Gauge", n, v)
}
func (s *lockedStatter) GaugeDelta(n string, v int64, r float32, t ...cstatsd.Tag) error {
	return s.note("GaugeDelta", n, v)
}
func (s *lockedStatter) Timing(n string, v int64, r float32, t ...cstatsd.Tag) error {
	return s.note("Timing", n, v)
}
func (s *lockedStatter) TimingDuration(n string, d time.Duration, r float32, t ...cstatsd.Tag) error {
	return s.note("TimingDuration", n, int64(d))
}
func (s *lockedStatter) Set(n string, v string, r float32, t ...cstatsd.Tag) error {
	return s.note("Set", n, 0)
}
func (s *lockedStatter) SetInt(n string, v int64, r float32, t ...cstatsd.Tag) error {
	return s.note("SetInt", n, v)
}
func (s *lockedStatter) Raw(n string, v string, r float32, t ...cstatsd.Tag) error {
	return s.note("Raw", n, 0)
}
func (s *lockedStatter) NewSubStatter(string) cstatsd.SubStatter { return nil }
func (s *lockedStatter) SetPrefix(string)                        {}
func (s *lockedStatter) Close() error                            { return nil }

func runConc(c ConcCase) (pbt.Outcome, error) {
	var errs pbt.Errs
	var out pbt.Outcome
	st := &lockedStatter{calls: map[string][]int64{}}
	r := tstatsd.NewReporter(st, tstatsd.Options{HistogramBucketNamePrecision: c.Precision})
	prec := int(c.Precision)
	if prec == 0 {
		prec = 6
	}
	pairs := model.ValuePairs(c.Spec)
	dpairs := model.DurationPairs([]time.Duration{time.Millisecond, 250 * time.Millisecond, time.Second})
	want := map[string][]int64{}
	var wmu sync.Mutex
	expect := func(k string, v int64) {
		wmu.Lock()
		want[k] = append(want[k], v)
		wmu.Unlock()
	}
	var wg sync.WaitGroup
	start := make(chan struct{})
	for w := 0; w < c.Workers; w++ {
		wg.Add(1)
		go func(w int) {
			defer wg.Done()
			<-start
			name := fmt.Sprintf("svc%d.latency", w)
			for i := 0; i < c.PerWorker; i++ {
				v := int64(w)<<32 | int64(i) // unique per call
				switch i % 4 {
				case 0:
					p := pairs[i/4%len(pairs)]
					r.ReportHistogramValueSamples(name, nil, tally.ValueBuckets(c.Spec), p.Lo, p.Hi, v)
					expect(fmt.Sprintf("Inc %s.%s-%s", name, refValue(p.Lo, prec), refValue(p.Hi, prec)), v)
				case 1:
					p := dpairs[i/4%len(dpairs)]
					r.ReportHistogramDurationSamples(name, nil, tally.DurationBuckets{time.Millisecond, 250 * time.Millisecond, time.Second}, p.Lo, p.Hi, v)
					expect(fmt.Sprintf("Inc %s.%s-%s", name, refDuration(p.Lo), refDuration(p.Hi)), v)
				case 2:
					r.ReportCounter(name+".c", nil, v)
					expect("Inc "+name+".c", v)
				default:
					r.ReportGauge(name+".g", nil, float64(v))
					expect("Gauge "+name+".g", v)
				}
			}
		}(w)
	}
	close(start)
	wg.Wait()
	st.mu.Lock()
	defer st.mu.Unlock()
	bad := 0
	count := func(vs []int64) map[int64]int {
		m := map[int64]int{}
		for _, v := range vs {
			m[v]++
		}
		return m
	}
	for k, ws := range want {
		if fmt.Sprint(count(st.calls[k])) != fmt.Sprint(count(ws)) && bad < 5 {
			bad++
			errs.Addf("stat %q received %d calls, %d were made for it (values differ)", k, len(st.calls[k]), len(ws))
		}
	}
	for k, gs := range st.calls {
		if _, ok := want[k]; !ok && bad < 5 {
			bad++
			errs.Addf("the client was called for %q (%d calls), which no reporter call names", k, len(gs))
		}
	}
	out.NonTrivial = true
	return out, errs.Err()
}

func TestConcurrent(t *testing.T) {
	pbt.Main(t, pbt.Prop[ConcCase]{
		ID: "C18", Name: "concurrent",
		Rule: "free-running, under the race detector: 2..8 goroutines make 50..400 calls each on ONE StatsD reporter (value and duration bucket samples, counters, gauges; names per goroutine, values unique per call) with a mutex-protected recording client. Oracle: per stat name the multiset of values the client received equals the multiset reported under that name (nothing under a mixed or foreign name); any race detector report is a violation. Non-trivial: every case.",
		Gen:  genConc, Run: runConc, Retries: 10, HangAfter: 60 * time.Second,
	})
}

// C14: the M3 reporter never crashes, hangs or leaks, whatever the call order.
package c14

import (
	"fmt"
	"math"
	"runtime"
	"strings"
	"sync"
	"sync/atomic"
	"testing"
	"time"

	tally "github.com/uber-go/tally/v4"
	"github.com/uber-go/tally/v4/m3"
	"pgregory.net/rapid"

	"verifharness/internal/m3h"
	"verifharness/internal/pbt"
	"verifharness/internal/sched"
	"verifharness/internal/sgen"
	"verifharness/internal/udpsink"
)

type Case struct {
	Binary    bool  `json:"binary"`
	Queue     int   `json:"queue"`
	Producers []int `json:"producers"` // number of reports per producer thread
	Kinds     []int `json:"kinds"`     // per producer: 0 counter 1 gauge 2 timer 3 histogram bucket
	Flushers  int   `json:"flushers"`
	Closers   int   `json:"closers"`
	After     bool  `json:"after"`          // calls after Close returned
	Dead      bool  `json:"dead,omitempty"` // nobody listens at the destination: every send fails
	Sched     []int `json:"sched"`
}

func gen(t *rapid.T) Case {
	c := Case{Binary: rapid.Bool().Draw(t, "binary"), Queue: rapid.IntRange(1, 4).Draw(t, "queue")}
	np := rapid.IntRange(1, 3).Draw(t, "nproducers")
	for i := 0; i < np; i++ {
		c.Producers = append(c.Producers, rapid.IntRange(1, 4).Draw(t, "nreports"))
		c.Kinds = append(c.Kinds, rapid.IntRange(0, 3).Draw(t, "kind"))
	}
	c.Flushers = rapid.IntRange(0, 1).Draw(t, "flushers")
	c.Closers = rapid.IntRange(1, 2).Draw(t, "closers")
	c.After = rapid.Bool().Draw(t, "after")
	c.Dead = rapid.IntRange(0, 3).Draw(t, "dead") == 0
	c.Sched = sgen.Choices(t, 150, np+c.Flushers+c.Closers+1)
	return c
}

const afterBase = 7000000

// leaked reports reporter goroutines that are still there 50 ms after the call (a goroutine that is
// executing the last instructions of its exit path - the tail of WaitGroup.Done, say - when Close
// returns is not left running).
func leaked() string {
	var l string
	for i := 0; i < 50; i++ {
		if l = leakedNow(); l == "" {
			return ""
		}
		time.Sleep(time.Millisecond)
	}
	return l
}

func leakedNow() string {
	buf := make([]byte, 1<<20)
	n := runtime.Stack(buf, true)
	var bad []string
	for _, g := range strings.Split(string(buf[:n]), "\n\n") {
		// any goroutine that is inside, or was started by, the m3 packages - except the harness's own
		// threads, which may be parked at a hook inside a reporter call
		if strings.Contains(g, "github.com/uber-go/tally/v4/m3") && !strings.Contains(g, "verifharness/") {
			if len(g) > 900 {
				g = g[:900]
			}
			bad = append(bad, strings.ReplaceAll(g, "\n", " | "))
		}
	}
	return strings.Join(bad, "; ")
}

func run(c Case) (pbt.Outcome, error) {
	var errs pbt.Errs
	var out pbt.Outcome
	sink, err := udpsink.New()
	if err != nil {
		return out, fmt.Errorf("harness: %v", err)
	}
	defer sink.Close()
	proto := m3.Compact
	if c.Binary {
		proto = m3.Binary
	}
	r, err := m3.NewReporter(m3.Options{HostPorts: []string{sink.Addr}, Service: "svc", Env: "test", Protocol: proto, MaxQueueSize: c.Queue})
	if err != nil {
		return out, fmt.Errorf("NewReporter: %v", err)
	}
	if c.Dead {
		_ = sink.Conn.Close()
		out.Classes = append(out.Classes, "destination-unreachable")
	}
	cnt := r.AllocateCounter("c", map[string]string{"a": "b"})
	gau := r.AllocateGauge("g", nil)
	tim := r.AllocateTimer("t", nil)
	hb := r.AllocateHistogram("h", nil, tally.ValueBuckets{1, 2}).ValueBucket(1, 2)
	// bucket handles a histogram does not have - the other kind, bounds that are not its own, on a
	// histogram without buckets - are usable no-ops: asking for them and reporting on them never panics
	var strays []tally.CachedHistogramBucket
	func() {
		defer func() {
			if p := recover(); p != nil {
				errs.Addf("asking a histogram for a bucket handle it does not have panicked: %v", p)
			}
		}()
		hv := r.AllocateHistogram("h", nil, tally.ValueBuckets{1, 2})
		hd := r.AllocateHistogram("hd", nil, tally.DurationBuckets{time.Millisecond})
		he := r.AllocateHistogram("he", nil, tally.ValueBuckets{})
		strays = append(strays, hv.DurationBucket(time.Millisecond, time.Second), hv.ValueBucket(5, 6), hv.ValueBucket(0, math.Inf(1)), hv.ValueBucket(math.NaN(), math.NaN()),
			hd.ValueBucket(1, 2), hd.DurationBucket(time.Hour, 2*time.Hour), he.DurationBucket(0, time.Second), he.ValueBucket(1, 2))
		for _, b := range strays {
			b.ReportSamples(1)
		}
	}()

	s := sched.New(c.Sched)
	s.Tau = 5 * time.Millisecond
	m3.VerifSetHooks(&m3.VerifHooks{Yield: s.Yield})
	defer m3.VerifSetHooks(nil)

	var mu sync.Mutex
	var closeReturned atomic.Bool
	var closeErrs []error
	var leakMsg string
	closePreemptedProducer := false
	report := func(kind int, v int64) {
		switch kind {
		case 0:
			cnt.ReportCount(v)
		case 1:
			gau.ReportGauge(float64(v))
		case 2:
			tim.ReportTimer(time.Duration(v))
		default:
			hb.ReportSamples(v)
		}
	}
	for pi, n := range c.Producers {
		pi, n := pi, n
		s.Go(fmt.Sprintf("producer%d", pi), func() {
			for i := 0; i < n; i++ {
				report(c.Kinds[pi], int64(pi*100+i+1))
			}
		})
	}
	for fi := 0; fi < c.Flushers; fi++ {
		s.Go(fmt.Sprintf("flusher%d", fi), func() {
			r.Flush()
			r.Flush()
		})
	}
	for ci := 0; ci < c.Closers; ci++ {
		s.Go(fmt.Sprintf("closer%d", ci), func() {
			err := r.Close()
			if err == nil {
				// the winner: every reporter goroutine must be gone now
				if l := leaked(); l != "" {
					mu.Lock()
					leakMsg = l
					mu.Unlock()
				}
				closeReturned.Store(true)
			}
			mu.Lock()
			closeErrs = append(closeErrs, err)
			mu.Unlock()
		})
	}
	if c.After {
		s.Go("after", func() {
			for !closeReturned.Load() {
				s.Yield("harness:wait-for-close:spin")
			}
			for k := 0; k < 4; k++ {
				report(k, afterBase+int64(k))
			}
			r.Flush()
			_ = r.AllocateCounter("late", nil)
			if err := r.Close(); err == nil {
				mu.Lock()
				errs.Addf("a further Close returned nil, want an error")
				mu.Unlock()
			}
		})
	}
	res := s.Run()
	m3.VerifSetHooks(nil)
	for _, p := range res.Panics {
		errs.Addf("panic in thread %s: %s\n%.1500s", p.Thread, p.Value, p.Stack)
	}
	if res.Deadlock || res.Hang || res.StepLimit {
		if res.Hang {
			errs.Poison() // a thread is still blocked inside the library: stop this process after saving the case
		}
		errs.Addf("calls did not all return: deadlock=%v hang=%v steplimit=%v: %s", res.Deadlock, res.Hang, res.StepLimit, res.Detail)
		return out, errs.Err()
	}
	nilCount := 0
	for _, e := range closeErrs {
		if e == nil {
			nilCount++
		}
	}
	if len(res.Panics) == 0 {
		if nilCount != 1 {
			errs.Addf("%d Close calls returned nil, want exactly one winner (others an error): %v", nilCount, closeErrs)
		}
		if leakMsg != "" {
			errs.Addf("reporter goroutines still running after Close returned: %s", leakMsg)
		}
	}
	// nothing reported after Close returned may reach the sink
	time.Sleep(300 * time.Microsecond)
	for gi, d := range sink.Datagrams() {
		_, batch, err := m3h.Decode(c.Binary, d)
		if err != nil {
			errs.Addf("datagram %d does not decode: %v", gi, err)
			continue
		}
		for _, m := range batch.Metrics {
			v := m.Value.Count
			if m.Value.Timer != 0 {
				v = m.Value.Timer
			}
			if m.Value.Gauge != 0 {
				v = int64(m.Value.Gauge)
			}
			if v >= afterBase && v < afterBase+10 && !m3h.IsInternal(m.Name) {
				errs.Addf("a value reported after Close had returned reached the sink: %v", m)
			}
		}
	}
	for _, st := range res.Trace {
		_ = st
	}
	if sched.PreemptedAt(res.Trace, "m3.report:pending-inc", "m3.report:done-checked", "m3.report:before-send", "m3.flush:pending-inc", "m3.flush:done-checked", "m3.flush:before-send", "m3.report:enter", "m3.flush:enter") {
		closePreemptedProducer = true
	}
	out.NonTrivial = closePreemptedProducer
	if sched.PreemptedAt(res.Trace, "m3.close:") {
		out.Classes = append(out.Classes, "preempted-close")
	}
	if closePreemptedProducer {
		out.Classes = append(out.Classes, "preempted-enter-protocol")
	}
	if res.Detaches > 0 {
		out.Classes = append(out.Classes, "blocked-on-queue-or-wait")
	}
	return out, errs.Err()
}

func TestSched(t *testing.T) {
	pbt.Main(t, pbt.Prop[Case]{
		ID: "C14", Name: "sched",
		Rule: "cooperative-scheduler mode: 1..3 producer threads (1..4 reports each through a counter, gauge, timer or histogram-bucket handle), 0..1 Flush caller, 1..2 Close callers and optional post-Close activity (reports, Flush, Allocate, Close again) on a reporter with queue size 1..4 and a real (in a quarter of the cases: unreachable) loopback sink, both protocols; the schedule (<=150 choices) interleaves them at the verif yield points between 'pending++', 'check done' and 'send' of every report/flush and between the steps of Close (CAS, busy-wait for pending to drain, close the two channels, wait for the workers); the batching goroutine runs free. Oracle: no panic (e.g. send on closed channel), every call returns (deadlock decided by the scheduler, hang rule otherwise), exactly one Close returns nil and every other returns an error, no reporter goroutine is alive when the winner returns (goroutine dump), nothing reported after Close returned reaches the sink, every datagram decodes. Non-trivial: some report/flush was preempted inside its enter protocol. Distinct: FNV-64 of program+schedule JSON.",
		Gen:  gen, Run: run, Retries: 10,
	})
}

// ---------------------------------------------------------------- free-running (-race)

type RaceCase struct {
	Binary     bool   `json:"binary"`
	Queue      int    `json:"queue"`
	Goroutines []int  `json:"goroutines"` // kind per goroutine: 0 counter 1 gauge 2 timer 3 shared histogram bucket handle 4 flush 5 allocate counter 6/7 allocate value/duration histogram under one shared tag set
	Reports    int    `json:"reports"`
	CloseAt    int    `json:"closeAt"`             // Close is called concurrently after this many microseconds (0 = at once)
	KillSink   bool   `json:"killSink"`            // the destination goes away mid-run
	KillFirst  bool   `json:"killFirst,omitempty"` // ... or is already gone when the first call is made (every send fails)
	Seed       uint64 `json:"seed"`
}

func genRace(t *rapid.T) RaceCase {
	c := RaceCase{Binary: rapid.Bool().Draw(t, "binary"), Queue: rapid.SampledFrom([]int{1, 2, 4, 8, 64}).Draw(t, "queue"), Reports: rapid.OneOf(rapid.IntRange(1, 30), rapid.IntRange(100, 300)).Draw(t, "reports")}
	n := rapid.IntRange(2, 10).Draw(t, "n")
	for i := 0; i < n; i++ {
		c.Goroutines = append(c.Goroutines, rapid.SampledFrom([]int{0, 1, 2, 3, 3, 3, 4, 5, 6, 6, 7, 8, 8, 8}).Draw(t, "kind"))
	}
	c.CloseAt = rapid.SampledFrom([]int{0, 0, 20, 100, 1000}).Draw(t, "closeAt")
	c.KillSink = rapid.IntRange(0, 1).Draw(t, "kill") == 0
	c.KillFirst = c.KillSink && rapid.Bool().Draw(t, "killFirst")
	c.Seed = rapid.Uint64().Draw(t, "seed")
	return c
}

func runRace(c RaceCase) (pbt.Outcome, error) {
	var errs pbt.Errs
	sink, err := udpsink.New()
	if err != nil {
		return pbt.Outcome{}, fmt.Errorf("harness: %v", err)
	}
	defer sink.Close()
	proto := m3.Compact
	if c.Binary {
		proto = m3.Binary
	}
	r, err := m3.NewReporter(m3.Options{HostPorts: []string{sink.Addr}, Service: "svc", Env: "test", Protocol: proto, MaxQueueSize: c.Queue})
	if err != nil {
		return pbt.Outcome{}, fmt.Errorf("NewReporter: %v", err)
	}
	f := sched.NewFree(c.Seed)
	m3.VerifSetHooks(&m3.VerifHooks{Yield: f.Yield})
	defer m3.VerifSetHooks(nil)
	cnt := r.AllocateCounter("c", map[string]string{"a": "b"})
	gau := r.AllocateGauge("g", nil)
	tim := r.AllocateTimer("t", nil)
	hb := r.AllocateHistogram("h", map[string]string{"x": "y"}, tally.ValueBuckets{1, 2}).ValueBucket(1, 2)
	var mu sync.Mutex
	var wg sync.WaitGroup
	start := make(chan struct{})
	guard := func(name string, fn func()) {
		wg.Add(1)
		go func() {
			defer wg.Done()
			defer func() {
				if p := recover(); p != nil {
					mu.Lock()
					errs.Addf("panic in %s: %v", name, p)
					mu.Unlock()
				}
			}()
			<-start
			fn()
		}()
	}
	sharedBucket := 0
	for gi, k := range c.Goroutines {
		gi, k := gi, k
		if k == 3 {
			sharedBucket++
		}
		guard(fmt.Sprintf("goroutine %d (kind %d)", gi, k), func() {
			for i := 0; i < c.Reports; i++ {
				switch k {
				case 0:
					cnt.ReportCount(int64(i))
				case 1:
					gau.ReportGauge(float64(i))
				case 2:
					tim.ReportTimer(time.Duration(i))
				case 3:
					hb.ReportSamples(int64(i))
				case 4:
					r.Flush()
				case 5:
					r.AllocateCounter(fmt.Sprintf("n%d", i%3), map[string]string{"k": fmt.Sprint(gi)}).ReportCount(1)
				case 6:
					// histograms allocated concurrently under ONE shared tag set (the converted tags are shared
					// through the reporter's tag cache), value and duration flavour: different bucket strings
					r.AllocateHistogram(fmt.Sprintf("hv%d", i%2), map[string]string{"x": "y"}, tally.ValueBuckets{1, 2, 1000000}).ValueBucket(2, 1000000).ReportSamples(1)
				case 8:
					// a tag set the reporter has never seen, every time (its tag cache takes a new entry)
					r.AllocateCounter("fresh", map[string]string{"k": fmt.Sprintf("%d-%d", gi, i), "g": fmt.Sprint(gi)}).ReportCount(1)
				case 7:
					r.AllocateHistogram(fmt.Sprintf("hd%d", i%2), map[string]string{"x": "y"}, tally.DurationBuckets{time.Millisecond, time.Second}).DurationBucket(time.Millisecond, time.Second).ReportSamples(1)
				}
			}
		})
	}
	var closeErr1, closeErr2 error
	guard("closer", func() {
		if c.CloseAt > 0 {
			time.Sleep(time.Duration(c.CloseAt) * time.Microsecond)
		}
		closeErr1 = r.Close()
		closeErr2 = r.Close()
	})
	if c.KillFirst {
		_ = sink.Conn.Close()
	} else if c.KillSink {
		guard("sink-killer", func() {
			time.Sleep(time.Duration(c.CloseAt/2) * time.Microsecond)
			_ = sink.Conn.Close()
		})
	}
	close(start)
	done := make(chan struct{})
	go func() { wg.Wait(); close(done) }()
	select {
	case <-done:
	case <-time.After(30 * time.Second):
		errs.Addf("calls did not return within 30s (hang)")
		errs.Poison()
		return pbt.Outcome{}, errs.Err()
	}
	m3.VerifSetHooks(nil)
	if closeErr1 != nil {
		errs.Addf("first Close returned %v", closeErr1)
	}
	if closeErr2 == nil {
		errs.Addf("second Close returned nil, want an error")
	}
	if l := leaked(); l != "" {
		errs.Addf("reporter goroutines still running after Close returned: %s", l)
	}
	cnt.ReportCount(1)
	r.Flush()
	out := pbt.Outcome{NonTrivial: sharedBucket >= 2 || c.CloseAt < 200}
	if sharedBucket >= 2 {
		out.Classes = append(out.Classes, "shared-bucket-handle")
	}
	if c.KillSink {
		out.Classes = append(out.Classes, "sink-killed")
	}
	return out, errs.Err()
}

func TestRace(t *testing.T) {
	pbt.Main(t, pbt.Prop[RaceCase]{
		ID: "C14", Name: "race",
		Rule: "free-running mode (real parallelism, built with -race, hooks inject seeded Gosched perturbation, also in the batching goroutine between counting a batch's metrics and counting the batch): 2..10 goroutines each repeat 1..30 (or 100..300) calls of one kind (counter, gauge, timer, ReportSamples on ONE shared histogram-bucket handle, Flush, Allocate+report of counters, of value and of duration histograms under one shared tag set, of counters under a tag set that is new every time) while another goroutine calls Close (at once or after 20us..1ms) and then Close again, optionally with the destination socket closed mid-run or before the first call (send errors); both protocols; queue 1/2/64. Oracle: no panic, all calls return within 30s, first Close nil and second Close an error, no reporter goroutine left, calls after Close are harmless, and no race-detector report. Non-trivial: >=2 goroutines share the bucket handle, or Close races the producers within 200us.",
		Gen:  genRace, Run: runRace,
		// the schedule is not part of the case: a replay (and, after a first failure, every shrink
		// candidate) is run up to Retries times and fails if any run fails
		Retries: 60,
	})
}

// C11: a test scope's snapshot shows exactly what was recorded.
package c11

import (
	"fmt"
	"math"
	"sort"
	"sync"
	"testing"
	"time"

	tally "github.com/uber-go/tally/v4"
	"pgregory.net/rapid"

	"verifharness/internal/model"
	"verifharness/internal/pbt"
	"verifharness/internal/rec"
)

type Op struct {
	K     string `json:"k"` // sub tagged counter gauge timer vhist dhist snap mutate close reobtain
	S     int    `json:"s,omitempty"`
	Name  pbt.S  `json:"n,omitempty"`
	Tags  pbt.M  `json:"t,omitempty"`
	I     int64  `json:"i,omitempty"`
	F     pbt.F  `json:"f,omitempty"`
	Spec  int    `json:"spec,omitempty"`
	Which int    `json:"w,omitempty"`
}

type Case struct {
	Prefix pbt.S `json:"prefix"`
	Tags   pbt.M `json:"tags,omitempty"`
	Shards uint  `json:"shards"`
	Ops    []Op  `json:"ops"`
}

// the pools contain groups of DIFFERENT specs that collide in the library's bucket cache (equal sum of
// element bit patterns, the kind is not part of the identity): values {1,4} ~ {0.5,8}; durations
// {1s,4s} ~ {2s,3s} ~ {5s}, {5,3,9} ~ {8,9}; across kinds {-2,2} ~ {-1s,1s} (both sum to 0 mod 2^64)
// (no empty specification: whether it means one catch-all bucket or the scope's defaults is left open
// by the properties - C03's quantifier reads "empty/nil meaning scope defaults" - and C03 accepts both)
var vspecs = [][]float64{{0, 1, 2}, {-5, 5}, {10, 2, 7}, {3}, {1, 4}, {0.5, 8}, {-2, 2}}
var dspecs = [][]time.Duration{{0, time.Millisecond, time.Second}, {-time.Second, time.Second}, {5, 3, 9},
	{time.Second, 4 * time.Second}, {2 * time.Second, 3 * time.Second}, {5 * time.Second}, {8, 9}}

func gen(t *rapid.T) Case {
	c := Case{Prefix: rapid.OneOf(rapid.Just(pbt.S("")), pbt.PlainString()).Draw(t, "prefix"), Shards: uint(rapid.SampledFrom([]int{1, 2, 16}).Draw(t, "shards"))}
	c.Tags = pbt.MapOf(pbt.PlainString(), pbt.PlainString(), 2).Draw(t, "tags")
	n := rapid.IntRange(1, 30).Draw(t, "nops")
	kinds := []string{"sub", "tagged", "counter", "counter", "counter", "gauge", "gauge", "timer", "timer", "vhist", "vhist", "dhist", "snap", "snap", "mutate", "close", "reobtain", "pass"}
	for i := 0; i < n; i++ {
		op := Op{K: rapid.SampledFrom(kinds).Draw(t, "k"), S: rapid.IntRange(0, 5).Draw(t, "s")}
		switch op.K {
		case "sub":
			op.Name = pbt.PlainString().Draw(t, "name")
		case "tagged":
			// keys from a small pool, so that an inherited key is tagged again - also with the empty
			// value, which is a value like any other and wins over the inherited one
			tk := rapid.OneOf(pbt.PlainString(), rapid.SampledFrom([]pbt.S{"k", "a", "env"}))
			tv := rapid.OneOf(pbt.PlainString(), rapid.SampledFrom([]pbt.S{"", "", "v", "w"}))
			op.Tags = pbt.M{tk.Draw(t, "k"): tv.Draw(t, "v")}
			if rapid.Bool().Draw(t, "two") {
				op.Tags[tk.Draw(t, "k2")] = tv.Draw(t, "v2")
			}
		case "counter":
			op.Name = pbt.S(rapid.SampledFrom([]string{"m0", "m1", "m2", ""}).Draw(t, "n"))
			op.I = pbt.AnyInt64().Draw(t, "i")
		case "gauge":
			op.Name = pbt.S(rapid.SampledFrom([]string{"m0", "m1", "m2", ""}).Draw(t, "n"))
			op.F = pbt.AnyFloat().Draw(t, "f")
		case "timer":
			op.Name = pbt.S(rapid.SampledFrom([]string{"m0", "m1", "m2", ""}).Draw(t, "n"))
			op.I = pbt.AnyInt64().Draw(t, "i")
		case "vhist":
			op.Spec = rapid.IntRange(0, len(vspecs)-1).Draw(t, "spec")
			op.Name = pbt.S(fmt.Sprintf("hv%d", op.Spec))
			op.F = pbt.FOf(float64(rapid.IntRange(-12, 12).Draw(t, "v")) / 2)
		case "dhist":
			op.Spec = rapid.IntRange(0, len(dspecs)-1).Draw(t, "spec")
			op.Name = pbt.S(fmt.Sprintf("hd%d", op.Spec))
			op.I = rapid.SampledFrom([]int64{0, 1, -1, 3, 4, 9, 10, int64(time.Millisecond), int64(time.Second), int64(time.Second) + 1, -int64(time.Second), math.MaxInt64, math.MinInt64}).Draw(t, "d")
		case "mutate":
			op.Which = rapid.IntRange(0, 3).Draw(t, "which")
		}
		switch op.K {
		case "counter", "gauge", "timer", "vhist", "dhist":
			// Which == 7: the metric is only asked for (a handle obtained up front, nothing recorded
			// yet): it is a metric of the scope all the same - "one entry per metric"
			if rapid.IntRange(0, 5).Draw(t, "touchOnly") == 0 {
				op.Which = 7
			}
		case "snap":
			// Which == 1: the snapshot is taken now but READ only at the end of the history, after
			// more recording: it must still show the state at the time it was taken
			op.Which = rapid.IntRange(0, 1).Draw(t, "readLater")
		}
		c.Ops = append(c.Ops, op)
	}
	return c
}

type entry struct {
	kind   string
	name   string
	tags   map[string]string
	count  int64
	gauge  uint64
	timers []time.Duration
	vh     map[float64]int64
	dh     map[time.Duration]int64
}

func (e *entry) clone() *entry {
	c := *e
	c.tags = map[string]string{}
	for k, v := range e.tags {
		c.tags[k] = v
	}
	c.timers = append([]time.Duration(nil), e.timers...)
	if e.vh != nil {
		c.vh = map[float64]int64{}
		for k, v := range e.vh {
			c.vh[k] = v
		}
	}
	if e.dh != nil {
		c.dh = map[time.Duration]int64{}
		for k, v := range e.dh {
			c.dh[k] = v
		}
	}
	return &c
}

func (e *entry) String() string {
	return fmt.Sprintf("%s %s %s c=%d g=%016x t=%v vh=%v dh=%v", e.kind, e.name, rec.TagKey(e.tags), e.count, e.gauge, e.timers, sortedV(e.vh), sortedD(e.dh))
}

func sortedV(m map[float64]int64) string {
	ks := make([]float64, 0, len(m))
	for k := range m {
		ks = append(ks, k)
	}
	sort.Float64s(ks)
	s := ""
	for _, k := range ks {
		s += fmt.Sprintf("%v:%d ", k, m[k])
	}
	return s
}

func sortedD(m map[time.Duration]int64) string {
	ks := make([]int64, 0, len(m))
	for k := range m {
		ks = append(ks, int64(k))
	}
	sort.Slice(ks, func(i, j int) bool { return ks[i] < ks[j] })
	s := ""
	for _, k := range ks {
		s += fmt.Sprintf("%d:%d ", k, m[time.Duration(k)])
	}
	return s
}

// view reads a snapshot through its accessors into a sorted list of strings.
func view(s tally.Snapshot) []string {
	var out []string
	// every entry must be filed under the public key of its own full name and tags
	keyed := func(kind, key, name string, tags map[string]string) {
		if want := tally.KeyForPrefixedStringMap(name, tags); key != want {
			out = append(out, fmt.Sprintf("MISKEYED %s %q %v: filed under %q, its key is %q", kind, name, tags, key, want))
		}
	}
	for k, c := range s.Counters() {
		keyed("counter", k, c.Name(), c.Tags())
		out = append(out, (&entry{kind: "counter", name: c.Name(), tags: c.Tags(), count: c.Value()}).String())
	}
	for k, g := range s.Gauges() {
		keyed("gauge", k, g.Name(), g.Tags())
		out = append(out, (&entry{kind: "gauge", name: g.Name(), tags: g.Tags(), gauge: math.Float64bits(g.Value())}).String())
	}
	for k, t := range s.Timers() {
		keyed("timer", k, t.Name(), t.Tags())
		out = append(out, (&entry{kind: "timer", name: t.Name(), tags: t.Tags(), timers: t.Values()}).String())
	}
	for k, h := range s.Histograms() {
		keyed("histogram", k, h.Name(), h.Tags())
		out = append(out, (&entry{kind: "histogram", name: h.Name(), tags: h.Tags(), vh: h.Values(), dh: h.Durations()}).String())
	}
	sort.Strings(out)
	return out
}

type mscope struct {
	m      model.Scope
	s      tally.Scope
	closed bool
	inert  bool
}

type world struct {
	entries map[string]*entry // kind|id -> entry
}

func (w *world) view() []string {
	var out []string
	for _, e := range w.entries {
		c := e.clone()
		if c.kind == "timer" && c.timers == nil {
			c.timers = []time.Duration{}
		}
		out = append(out, c.String())
	}
	sort.Strings(out)
	return out
}

func equalViews(a, b []string) bool {
	if len(a) != len(b) {
		return false
	}
	for i := range a {
		if a[i] != b[i] {
			return false
		}
	}
	return true
}

func diff(a, b []string) string {
	am := map[string]bool{}
	for _, x := range a {
		am[x] = true
	}
	bm := map[string]bool{}
	for _, x := range b {
		bm[x] = true
	}
	s := ""
	for _, x := range a {
		if !bm[x] {
			s += "\n  snapshot only: " + x
		}
	}
	for _, x := range b {
		if !am[x] {
			s += "\n  model only:    " + x
		}
	}
	return s
}

func run(c Case) (pbt.Outcome, error) {
	var errs pbt.Errs
	var out pbt.Outcome
	rootTags := c.Tags.Std()
	ts := tally.VerifNewTestScope(string(c.Prefix), rootTags, c.Shards)
	w := &world{entries: map[string]*entry{}}
	scopes := []*mscope{{m: model.NewRoot(string(c.Prefix), "", rootTags, nil), s: ts}}
	type held struct {
		snap tally.Snapshot
		view []string
	}
	var snaps []held
	readLater := false
	get := func(ms *mscope, kind, name string) *entry {
		if ms.inert {
			return nil
		}
		full := ms.m.Metric(name)
		id := kind + "|" + rec.ID(full, ms.m.Tags)
		e := w.entries[id]
		if e == nil {
			e = &entry{kind: kind, name: full, tags: ms.m.Tags}
			w.entries[id] = e
		}
		return e
	}
	recordedAfterSnap := false
	viaDerived := false
	for oi, op := range c.Ops {
		ms := scopes[op.S%len(scopes)]
		switch op.K {
		case "sub", "tagged":
			if len(scopes) >= 6 {
				continue
			}
			var child tally.Scope
			var cm model.Scope
			if op.K == "sub" {
				child, cm = ms.s.SubScope(string(op.Name)), ms.m.Sub(string(op.Name))
			} else {
				tg := op.Tags.Std()
				child, cm = ms.s.Tagged(tg), ms.m.Tagged(op.Tags.Std())
				pbt.Spoil(tg) // the caller re-uses its map: the scope's tags must not follow
			}
			n := &mscope{m: cm, s: child, inert: ms.inert || ms.closed}
			// the same identity obtained again is the same scope (closed or not)
			if !n.inert {
				for _, o := range scopes {
					if !o.inert && model.RefKey(o.m.Prefix, o.m.Tags) == model.RefKey(cm.Prefix, cm.Tags) {
						n.closed = o.closed
						if o.s != child {
							errs.Addf("op %d: same identity %q %v returned a different test scope object", oi, cm.Prefix, cm.Tags)
						}
					}
				}
			}
			scopes = append(scopes, n)
		case "counter":
			if op.Which == 7 {
				_ = ms.s.Counter(string(op.Name))
				get(ms, "counter", string(op.Name))
				continue
			}
			ms.s.Counter(string(op.Name)).Inc(op.I)
			if e := get(ms, "counter", string(op.Name)); e != nil {
				e.count += op.I
			}
			recordedAfterSnap = len(snaps) > 0
		case "gauge":
			if op.Which == 7 {
				_ = ms.s.Gauge(string(op.Name))
				get(ms, "gauge", string(op.Name))
				continue
			}
			ms.s.Gauge(string(op.Name)).Update(op.F.V())
			if e := get(ms, "gauge", string(op.Name)); e != nil {
				e.gauge = uint64(op.F)
			}
			recordedAfterSnap = len(snaps) > 0
		case "timer":
			if op.Which == 7 {
				_ = ms.s.Timer(string(op.Name))
				get(ms, "timer", string(op.Name))
				continue
			}
			ms.s.Timer(string(op.Name)).Record(time.Duration(op.I))
			if e := get(ms, "timer", string(op.Name)); e != nil {
				e.timers = append(e.timers, time.Duration(op.I))
			}
			recordedAfterSnap = len(snaps) > 0
		case "vhist":
			spec := vspecs[op.Spec]
			h := ms.s.Histogram(string(op.Name), tally.ValueBuckets(append([]float64(nil), spec...)))
			if op.Which != 7 {
				h.RecordValue(op.F.V())
			}
			if e := get(ms, "histogram", string(op.Name)); e != nil {
				pairs := model.ValuePairs(spec)
				if e.vh == nil {
					e.vh = map[float64]int64{}
					for _, p := range pairs {
						e.vh[p.Hi] += 0
					}
				}
				if op.Which != 7 {
					hi, _ := model.ValueBucketOf(pairs, op.F.V())
					e.vh[hi]++
				}
			}
			recordedAfterSnap = len(snaps) > 0
		case "dhist":
			spec := dspecs[op.Spec]
			h := ms.s.Histogram(string(op.Name), tally.DurationBuckets(append([]time.Duration(nil), spec...)))
			if op.Which != 7 {
				h.RecordDuration(time.Duration(op.I))
			}
			if e := get(ms, "histogram", string(op.Name)); e != nil {
				pairs := model.DurationPairs(spec)
				if e.dh == nil {
					e.dh = map[time.Duration]int64{}
					for _, p := range pairs {
						e.dh[p.Hi] += 0
					}
				}
				if op.Which != 7 {
					e.dh[model.DurationBucketOf(pairs, time.Duration(op.I))]++
				}
			}
			recordedAfterSnap = len(snaps) > 0
		case "snap":
			// taken through the root or through any scope derived from it (open or closed): the
			// snapshot is that of the whole tree either way
			via := ts
			if d, ok := ms.s.(tally.TestScope); ok && !ms.inert {
				via = d
				if ms != scopes[0] {
					viaDerived = true
				}
			}
			s := via.Snapshot()
			if op.Which == 1 {
				if len(snaps) < 4 {
					snaps = append(snaps, held{s, w.view()}) // not read yet: compared with the model of this moment at the end
					readLater = true
				}
				continue
			}
			v := view(s)
			if mv := w.view(); !equalViews(v, mv) {
				errs.Addf("op %d: snapshot differs from what was recorded:%s", oi, diff(v, mv))
			}
			if len(snaps) < 4 {
				snaps = append(snaps, held{s, v})
			}
		case "pass":
			// a report pass over the (reporter-less) test scope changes nothing a snapshot shows
			tally.VerifReportOnce(ts)
		case "mutate":
			if len(snaps) == 0 {
				continue
			}
			h := snaps[len(snaps)-1]
			snaps = snaps[:len(snaps)-1] // a mutated snapshot is no longer compared with its own view
			switch op.Which {
			case 0:
				for _, e := range h.snap.Counters() {
					e.Tags()["mutated-by-harness"] = "1"
					delete(h.snap.Counters(), "x")
				}
				for k := range h.snap.Counters() {
					delete(h.snap.Counters(), k)
					break
				}
			case 1:
				for _, e := range h.snap.Timers() {
					v := e.Values()
					for i := range v {
						v[i] = -12345
					}
				}
			case 2:
				for _, e := range h.snap.Histograms() {
					for k := range e.Values() {
						e.Values()[k] = 999
					}
					for k := range e.Durations() {
						e.Durations()[k] = 999
					}
				}
			case 3:
				for _, e := range h.snap.Gauges() {
					for k := range e.Tags() {
						e.Tags()[k] = "mutated"
					}
				}
			}
		case "close":
			if ms.s == tally.Scope(ts) || ms.inert {
				continue
			}
			if cl, ok := ms.s.(interface{ Close() error }); ok {
				_ = cl.Close()
				for _, o := range scopes {
					if !o.inert && model.RefKey(o.m.Prefix, o.m.Tags) == model.RefKey(ms.m.Prefix, ms.m.Tags) {
						o.closed = true
					}
				}
			}
		case "reobtain":
			// re-derive every known identity from the root: must give the same objects
			for _, o := range scopes {
				if o.inert || o.s == tally.Scope(ts) {
					continue
				}
			}
		}
	}
	final := ts.Snapshot()
	if v, mv := view(final), w.view(); !equalViews(v, mv) {
		errs.Addf("final snapshot differs from what was recorded:%s", diff(v, mv))
	}
	for i, h := range snaps {
		if v := view(h.snap); !equalViews(v, h.view) {
			errs.Addf("held snapshot %d, read after further recording, differs from the state at the time it was taken (or from its own earlier reading):%s", i, diff(v, h.view))
		}
	}
	tagsets := map[string]bool{}
	for _, e := range w.entries {
		tagsets[rec.TagKey(e.tags)] = true
	}
	if readLater {
		out.Classes = append(out.Classes, "snapshot-read-later")
	}
	out.NonTrivial = len(tagsets) >= 2 && recordedAfterSnap
	closedAny := false
	for _, s := range scopes {
		if s.closed {
			closedAny = true
		}
	}
	if closedAny {
		out.Classes = append(out.Classes, "closed-subscope")
	}
	if recordedAfterSnap {
		out.Classes = append(out.Classes, "record-after-snapshot")
	}
	if viaDerived {
		out.Classes = append(out.Classes, "snapshot-through-derived-scope")
	}
	return out, errs.Err()
}

func TestC11(t *testing.T) {
	pbt.Main(t, pbt.Prop[Case]{
		ID: "C11", Name: "snapshot",
		Rule: "rapid-generated histories (1..30 ops) on a test scope (shard count 1/2/16): derive up to 6 scopes by SubScope/Tagged over a delimiter-free alphabet, record on counters (int64 extremes), gauges (hostile float bits), timers, value and duration histograms (fixed specs incl. unsorted, empty and groups of different specs that collide in the internal bucket cache, also across kinds), take snapshots at arbitrary points, mutate a held snapshot through its accessors (tags, timer slices, histogram maps, deleting entries), close subscopes and keep recording on them. Oracle: every snapshot read through Name()/Tags()/Value*() equals the reference tally as a set of entries, and every entry is filed under KeyForPrefixedStringMap(its full name, its tags) (metric names include the empty name); a held snapshot re-read after further recording equals its own earlier view, and a snapshot taken but first READ only after further recording shows the state at the time it was taken; mutation of a snapshot never shows in a later one; closed test scopes stay visible; children of closed scopes are inert. Non-trivial: >=2 scopes with different tag sets and recording after a snapshot. Distinct: FNV-64 of the case JSON.",
		Gen:  gen, Run: run, HangAfter: 20 * time.Second,
	})
}

// ---------------------------------------------------------------- concurrent (free-running, -race)

type ConcCase struct {
	Writers int   `json:"writers"`
	Incs    []int `json:"incs"`
	Snaps   int   `json:"snaps"`
	// Rounds: the scenario is repeated on that many fresh test scopes, the writers released together
	// each time (the window in which several goroutines first use one name is narrow)
	Rounds int `json:"rounds,omitempty"`
}

func genConc(t *rapid.T) ConcCase {
	return ConcCase{Writers: rapid.IntRange(1, 6).Draw(t, "writers"), Incs: rapid.SliceOfN(rapid.IntRange(1, 50), 1, 8).Draw(t, "incs"), Snaps: rapid.IntRange(1, 6).Draw(t, "snaps"),
		Rounds: rapid.SampledFrom([]int{1, 20, 100}).Draw(t, "rounds")}
}

func runConc(c ConcCase) (pbt.Outcome, error) {
	rounds := c.Rounds
	if rounds < 1 {
		rounds = 1
	}
	var out pbt.Outcome
	for r := 0; r < rounds; r++ {
		o, err := runConcOnce(c)
		out = o
		if err != nil {
			return out, err
		}
	}
	return out, nil
}

func runConcOnce(c ConcCase) (pbt.Outcome, error) {
	var errs pbt.Errs
	var mu sync.Mutex
	start := make(chan struct{})
	ts := tally.NewTestScope("p", map[string]string{"a": "b"})
	var total int64
	for _, n := range c.Incs {
		total += int64(n)
	}
	type keptSnap struct {
		snap  tally.Snapshot
		first map[string]int64
	}
	var kept []keptSnap
	var wg sync.WaitGroup
	for wi := 0; wi < c.Writers; wi++ {
		wg.Add(1)
		go func(wi int) {
			defer wg.Done()
			<-start
			s := ts.Tagged(map[string]string{"w": fmt.Sprint(wi % 2)})
			for _, n := range c.Incs {
				s.Counter("c").Inc(int64(n))
				s.Gauge("g").Update(float64(n))
				s.Timer("t").Record(time.Duration(n))
				s.Histogram("h", tally.ValueBuckets{10, 20}).RecordValue(float64(n))
				s.SubScope(fmt.Sprint("s", n%3)).Counter("c").Inc(1)
			}
		}(wi)
	}
	for si := 0; si < c.Snaps; si++ {
		wg.Add(1)
		go func() {
			defer wg.Done()
			<-start
			snap := ts.Snapshot()
			first := map[string]int64{}
			for k, e := range snap.Counters() {
				first[k] = e.Value()
			}
			mu.Lock()
			kept = append(kept, keptSnap{snap, first})
			mu.Unlock()
			for _, e := range snap.Counters() {
				if e.Name() == "p.c" {
					w := int64(0)
					for wi := 0; wi < c.Writers; wi++ {
						if fmt.Sprint(wi%2) == e.Tags()["w"] {
							w++
						}
					}
					if e.Value() < 0 || e.Value() > w*total {
						mu.Lock()
						errs.Addf("concurrent snapshot shows %d for %v, possible range [0,%d]", e.Value(), e.Tags(), w*total)
						mu.Unlock()
					}
				}
			}
		}()
	}
	close(start)
	wg.Wait()
	snap := ts.Snapshot()
	var sum int64
	for _, e := range snap.Counters() {
		if e.Name() == "p.c" {
			sum += e.Value()
		}
	}
	if sum != int64(c.Writers)*total {
		errs.Addf("final snapshot total %d, want %d", sum, int64(c.Writers)*total)
	}
	// timers and histograms too: every value recorded through a handle obtained at that moment - the
	// writers first use the same names at the same time - is in the final snapshot
	for w := 0; w < 2; w++ {
		writers := 0
		for wi := 0; wi < c.Writers; wi++ {
			if wi%2 == w {
				writers++
			}
		}
		if writers == 0 {
			continue
		}
		wantT := map[time.Duration]int{}
		for _, n := range c.Incs {
			wantT[time.Duration(n)] += writers
		}
		gotT := map[time.Duration]int{}
		for _, e := range snap.Timers() {
			if e.Name() == "p.t" && e.Tags()["w"] == fmt.Sprint(w) {
				for _, v := range e.Values() {
					gotT[v]++
				}
			}
		}
		if fmt.Sprint(gotT) != fmt.Sprint(wantT) {
			errs.Addf("final snapshot: timer p.t of scope w=%d holds values (with multiplicity) %v, recorded %v", w, gotT, wantT)
		}
		var hs int64
		for _, e := range snap.Histograms() {
			if e.Name() == "p.h" && e.Tags()["w"] == fmt.Sprint(w) {
				for _, v := range e.Values() {
					hs += v
				}
			}
		}
		if hs != int64(writers*len(c.Incs)) {
			errs.Addf("final snapshot: histogram p.h of scope w=%d holds %d samples, recorded %d", w, hs, writers*len(c.Incs))
		}
		// per bucket (bounds 10, 20, +max), the gauge (one of the values written) and the counters of
		// the three subscopes
		wantB := map[float64]int64{}
		for _, n := range c.Incs {
			switch {
			case n <= 10:
				wantB[10] += int64(writers)
			case n <= 20:
				wantB[20] += int64(writers)
			default:
				wantB[math.MaxFloat64] += int64(writers)
			}
		}
		for _, e := range snap.Histograms() {
			if e.Name() == "p.h" && e.Tags()["w"] == fmt.Sprint(w) {
				for up, n := range e.Values() {
					if n != wantB[up] {
						errs.Addf("final snapshot: histogram p.h of scope w=%d has %d samples in the bucket <=%v, recorded %d", w, n, up, wantB[up])
					}
				}
				if len(e.Values()) != 3 {
					errs.Addf("final snapshot: histogram p.h of scope w=%d has %d buckets %v, created with bounds 10, 20", w, len(e.Values()), e.Values())
				}
			}
		}
		gOK := false
		for _, e := range snap.Gauges() {
			if e.Name() == "p.g" && e.Tags()["w"] == fmt.Sprint(w) {
				for _, n := range c.Incs {
					if e.Value() == float64(n) {
						gOK = true
					}
				}
				if !gOK {
					errs.Addf("final snapshot: gauge p.g of scope w=%d is %v, the values written are %v", w, e.Value(), c.Incs)
				}
			}
		}
		if !gOK {
			errs.Addf("final snapshot: gauge p.g of scope w=%d is missing or holds a value nobody wrote", w)
		}
		wantS := map[string]int64{}
		for _, n := range c.Incs {
			wantS[fmt.Sprintf("p.s%d.c", n%3)] += int64(writers)
		}
		for _, e := range snap.Counters() {
			if want, ok := wantS[e.Name()]; ok && e.Tags()["w"] == fmt.Sprint(w) {
				if e.Value() != want {
					errs.Addf("final snapshot: counter %s of scope w=%d is %d, recorded %d", e.Name(), w, e.Value(), want)
				}
				delete(wantS, e.Name())
			}
		}
		for name, want := range wantS {
			errs.Addf("final snapshot: counter %s of scope w=%d (recorded %d) is missing", name, w, want)
		}
	}
	// a snapshot is an independent copy: what was read from it while the writers ran is what it
	// shows now that they are done
	for i, k := range kept {
		for key, e := range k.snap.Counters() {
			if e.Value() != k.first[key] {
				errs.Addf("snapshot %d taken during the run showed %d for %s then and shows %d now", i, k.first[key], key, e.Value())
			}
		}
		if len(k.snap.Counters()) != len(k.first) {
			errs.Addf("snapshot %d taken during the run had %d counters then and has %d now", i, len(k.first), len(k.snap.Counters()))
		}
	}
	return pbt.Outcome{NonTrivial: c.Writers >= 2, Classes: []string{fmt.Sprintf("writers=%d", c.Writers)}}, errs.Err()
}

func TestConcurrent(t *testing.T) {
	pbt.Main(t, pbt.Prop[ConcCase]{
		ID: "C11", Name: "concurrent",
		Rule: "free-running mode (real parallelism, -race): 1..6 writer goroutines record on all metric kinds in tagged and sub scopes of one test scope while 1..6 goroutines take snapshots; every concurrently observed counter value lies between 0 and the final total, the final snapshot shows the exact total; the final snapshot also holds every timer value (with multiplicity), every histogram sample in its bucket, for every gauge one of the values written and the exact subscope counters, and the snapshots taken during the run still show what was read from them then; the scenario is repeated on 1/20/100 fresh scopes with the goroutines released together; race detector on. Non-trivial: >=2 writers.",
		Gen:  genConc, Run: runConc, Retries: 60, HangAfter: 120 * time.Second,
	})
}

package c04

import (
	"fmt"
	"sort"
	"testing"
	"time"

	tally "github.com/uber-go/tally/v4"
	"pgregory.net/rapid"

	"verifharness/internal/model"
	"verifharness/internal/pbt"
	"verifharness/internal/rec"
)

// ---------------------------------------------------------------- several derivation chains on one root
//
// The derivation mode runs one chain per fresh root, so a scope looked up under a wrong cache key is
// never met by the identity that really owns that key. Here 2..7 chains share one root; every piece
// of text is drawn from one tiny delimiter-free alphabet so that a subscope name in front of a tag
// key spells another tag key, a prefix followed by a name spells another prefix, and so on. None of
// the strings contains '+', ',' or '=' (that is C05's recorded ambiguity), hence different
// identities have different canonical keys and every chain must be delivered under its own name
// and tags.

type ForestCase struct {
	Mode     string   `json:"mode"`
	Shards   uint     `json:"shards"`
	Prefix   pbt.S    `json:"prefix"`
	Sep      pbt.S    `json:"sep"`
	RootTags pbt.M    `json:"rootTags,omitempty"`
	Chains   [][]Step `json:"chains"`
	Metrics  []pbt.S  `json:"metrics"`
	Passes   int      `json:"passes"`
	// Twin names the escape twin appended to the chains ("" for none): two chains whose identities have
	// different canonical keys on a tree that writes key components verbatim, and the same key under a
	// writer that puts the character Esc in front of a delimiter without also escaping Esc itself.
	Twin string `json:"twin,omitempty"`
	Esc  string `json:"esc,omitempty"`
}

func genForest(t *rapid.T) ForestCase {
	c := ForestCase{Mode: rapid.SampledFrom([]string{"plain", "cached", "test"}).Draw(t, "mode"),
		Shards: uint(rapid.SampledFrom([]int{0, 1, 2, 16}).Draw(t, "shards"))}
	piece := rapid.SampledFrom([]string{"x", "e", "xe", "ex", "a", "ax", "xa"})
	word := rapid.Custom(func(t *rapid.T) pbt.S {
		s := piece.Draw(t, "p")
		if rapid.IntRange(0, 3).Draw(t, "two") == 0 {
			s += piece.Draw(t, "q")
		}
		return pbt.S(s)
	})
	val := rapid.Custom(func(t *rapid.T) pbt.S {
		return pbt.S(rapid.SampledFrom([]string{"v", "w", "", "xv", "x"}).Draw(t, "val"))
	})
	c.Prefix = rapid.OneOf(rapid.Just(pbt.S("")), rapid.Just(pbt.S("")), word).Draw(t, "prefix")
	c.Sep = pbt.S(rapid.SampledFrom([]string{".", ".", "", "_", "x"}).Draw(t, "sep"))
	if c.Mode == "test" {
		c.Sep = "."
	}
	c.RootTags = pbt.MapOf(word, val, 2).Draw(t, "rootTags")
	n := rapid.IntRange(2, 7).Draw(t, "nchains")
	for i := 0; i < n; i++ {
		var ch []Step
		if i > 0 && rapid.IntRange(0, 2).Draw(t, "fork") == 0 {
			// start from a prefix of an earlier chain, so that the same scope is reached again
			prev := c.Chains[rapid.IntRange(0, i-1).Draw(t, "of")]
			ch = append(ch, prev[:rapid.IntRange(0, len(prev)).Draw(t, "upto")]...)
		}
		k := rapid.IntRange(1, 3).Draw(t, "nsteps")
		for j := 0; j < k; j++ {
			if rapid.Bool().Draw(t, "isSub") {
				s := word.Draw(t, "sub")
				ch = append(ch, Step{Sub: &s})
			} else {
				m := pbt.MapOf(word, val, 2).Draw(t, "tags")
				if len(m) == 0 && rapid.Bool().Draw(t, "nil") {
					m = nil
				}
				ch = append(ch, Step{Tags: m})
			}
		}
		c.Chains = append(c.Chains, ch)
		c.Metrics = append(c.Metrics, word.Draw(t, "metric"))
	}
	// escape twins (plain and cached only: a test scope's snapshot has a second, name-level key)
	if c.Mode != "test" && rapid.IntRange(0, 3).Draw(t, "twin?") == 0 {
		c.Esc = rapid.SampledFrom([]string{"\\", "\\", "%", "^", "/", "'"}).Draw(t, "esc")
		e := pbt.S(c.Esc)
		if rapid.Bool().Draw(t, "prefixTwin") {
			// prefix `p<esc>` with the tag k  versus  no prefix with the tag `p+k`: needs a root without
			// prefix (else the second key would have to begin with the splitter) and without tags (else
			// the two tag lists may sort differently around the inherited keys)
			c.Twin = "prefix/key"
			c.Prefix, c.RootTags = "", nil
			p, k, v := word.Draw(t, "twinP"), word.Draw(t, "twinK"), val.Draw(t, "twinV")
			sub := p + e
			c.Chains = append(c.Chains, []Step{{Sub: &sub}, {Tags: pbt.M{k: v}}}, []Step{{Tags: pbt.M{p + "+" + k: v}}})
		} else {
			// tags {m: `u<esc>`, `m0<esc>`: w}  versus  {m: `u,m0=w`} at the end of one base chain; no
			// other key of this alphabet sorts between "m" and "m0<esc>"
			c.Twin = "value/key"
			var base []Step
			if rapid.Bool().Draw(t, "twinOnChain") {
				prev := c.Chains[rapid.IntRange(0, len(c.Chains)-1).Draw(t, "twinOf")]
				base = append(base, prev[:rapid.IntRange(0, len(prev)).Draw(t, "twinUpto")]...)
			}
			u, w := val.Draw(t, "twinU"), val.Draw(t, "twinW")
			a := append(append([]Step{}, base...), Step{Tags: pbt.M{"m": u + e, "m0" + e: w}})
			b := append(append([]Step{}, base...), Step{Tags: pbt.M{"m": u + ",m0=" + w}})
			c.Chains = append(c.Chains, a, b)
		}
		c.Metrics = append(c.Metrics, word.Draw(t, "twinMetricA"), word.Draw(t, "twinMetricB"))
	}
	c.Passes = rapid.IntRange(1, 2).Draw(t, "passes")
	return c
}

func runForest(c ForestCase) (pbt.Outcome, error) {
	var errs pbt.Errs
	var out pbt.Outcome
	opts := tally.ScopeOptions{Prefix: string(c.Prefix), Separator: string(c.Sep), OmitCardinalityMetrics: true, Tags: c.RootTags.Std()}
	var log *rec.Log
	var root tally.Scope
	var ts tally.TestScope
	mroot := model.NewRoot(string(c.Prefix), string(c.Sep), c.RootTags.Std(), nil)
	switch c.Mode {
	case "plain":
		r := rec.NewStats()
		log = r.L
		opts.Reporter = r
		root, _ = tally.VerifNewRootScope(opts, 0, c.Shards)
	case "cached":
		r := rec.NewCached()
		log = r.L
		opts.CachedReporter = r
		root, _ = tally.VerifNewRootScope(opts, 0, c.Shards)
	default:
		ts = tally.NewTestScope(string(c.Prefix), c.RootTags.Std())
		root = ts
		mroot = model.NewRoot(string(c.Prefix), "", c.RootTags.Std(), nil)
	}

	refs := map[string]string{} // canonical library key -> reference identity
	ambiguous := false
	note := func(m model.Scope) {
		k, r := model.LibKey(m.Prefix, m.Tags), model.RefKey(m.Prefix, m.Tags)
		if old, ok := refs[k]; ok && old != r {
			ambiguous = true
		}
		refs[k] = r
	}
	note(mroot)
	want := map[string]int64{}
	owners := map[string]map[string]bool{}
	type leaf struct {
		c tally.Counter
		d int64
	}
	var leaves []leaf
	for i, ch := range c.Chains {
		s, ms := root, mroot
		for _, st := range ch {
			if st.Sub != nil {
				s, ms = s.SubScope(string(*st.Sub)), ms.Sub(string(*st.Sub))
			} else {
				s, ms = s.Tagged(st.Tags.Std()), ms.Tagged(st.Tags.Std())
			}
			note(ms)
		}
		d := int64(1) << uint(2*i)
		id := rec.ID(ms.Metric(string(c.Metrics[i])), ms.Tags)
		want[id] += d * int64(c.Passes)
		if owners[id] == nil {
			owners[id] = map[string]bool{}
		}
		owners[id][model.RefKey(ms.Prefix, ms.Tags)] = true
		leaves = append(leaves, leaf{s.Counter(string(c.Metrics[i])), d})
	}
	if ambiguous {
		// cannot happen without an escape twin, and with one only if the twin's strings meet another
		// chain's; kept so that the mode never judges inside C05's finding
		out.Excluded = "C05/key-delimiter-ambiguity"
		return out, nil
	}
	for p := 0; p < c.Passes; p++ {
		for _, l := range leaves {
			l.c.Inc(l.d)
		}
		if c.Mode != "test" {
			tally.VerifReportOnce(root)
		}
	}
	got := map[string]int64{}
	if c.Mode != "test" {
		for _, e := range log.Events() {
			if e.Kind == rec.KCounter {
				got[rec.ID(e.Name, e.Tags)] += e.I
			}
		}
	} else {
		for _, e := range ts.Snapshot().Counters() {
			got[rec.ID(e.Name(), e.Tags())] += e.Value()
		}
		// two different scopes that spell the same full name share one snapshot entry: not judged
		for id, o := range owners {
			if len(o) > 1 {
				delete(want, id)
				delete(got, id)
			}
		}
	}
	show := func(m map[string]int64) string {
		var ks []string
		for k := range m {
			ks = append(ks, k)
		}
		sort.Strings(ks)
		s := ""
		for _, k := range ks {
			s += fmt.Sprintf(" %q=%d", k, m[k])
		}
		return s
	}
	if show(got) != show(want) {
		errs.Addf("chains on one root: delivered%s; the derivations say%s", show(got), show(want))
	}
	out.NonTrivial = len(refs) >= 4
	out.Classes = append(out.Classes, c.Mode, fmt.Sprintf("scopes=%d", len(refs)))
	if c.Twin != "" {
		out.Classes = append(out.Classes, "twin="+c.Twin)
	}
	return out, errs.Err()
}

func TestForest(t *testing.T) {
	pbt.Main(t, pbt.Prop[ForestCase]{
		ID: "C04", Name: "forest",
		Rule: "rapid-generated sets of 2..7 derivation chains (1..3 SubScope/Tagged steps each, a third continuing a prefix of an earlier chain) on one root (plain/cached/test scope, shard count default/1/2/16, prefix empty or a word, separator '.', '', '_' or 'x', 0..2 root tags); every prefix, subscope name, tag key, tag value and metric name is spelled from the pieces {x,e,xe,ex,a,ax,xa} so that a name in front of a key or prefix spells another key or prefix, and none contains '+', ',' or '='. A quarter of the plain/cached cases add an escape twin: two chains that differ on the unchanged tree but get one key under a writer that escapes delimiters with a character it does not escape itself (one of \\ % ^ / '): prefix `p<esc>` with tag k versus no prefix with tag `p+k`, or tags {m: `u<esc>`, `m0<esc>`: w} versus {m: `u,m0=w`}; a case whose reference keys (written verbatim, as the unchanged tree does) coincide for two identities is counted as excluded under C05's open finding. Each chain's leaf counter is incremented by its own power of four on each of 1..2 passes; the delivered total per (name, tags) must equal the sum over the chains that the reference model maps there, and nothing else may be delivered. Non-trivial: at least four distinct scope identities. Distinct: FNV-64 of the case JSON.",
		Gen:  genForest, Run: runForest, HangAfter: 20 * time.Second,
	})
}

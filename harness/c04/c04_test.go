// C04: reported names and tags follow the scope derivation exactly.
package c04

import (
	"fmt"
	"testing"
	"time"
	"unicode/utf8"

	tally "github.com/uber-go/tally/v4"
	"pgregory.net/rapid"

	"verifharness/internal/model"
	"verifharness/internal/pbt"
	"verifharness/internal/rec"
	"verifharness/internal/san"
)

type Step struct {
	Sub    *pbt.S `json:"sub,omitempty"`
	Tags   pbt.M  `json:"tags,omitempty"`
	Mutate int    `json:"mutate,omitempty"` // how the caller's map is changed after the call: 0 none 1 add 2 overwrite 3 delete
}

type Case struct {
	San        *san.Options `json:"san,omitempty"`
	Mode       string       `json:"mode"` // plain cached test
	Prefix     pbt.S        `json:"prefix"`
	Sep        pbt.S        `json:"sep"`
	RootTags   pbt.M        `json:"rootTags,omitempty"`
	RootMutate int          `json:"rootMutate,omitempty"`
	Steps      []Step       `json:"steps"`
	Metric     pbt.S        `json:"metric"`
	Passes     int          `json:"passes"`
	// Caps: what the recording reporter says about itself (rec.CapsOf): advisory only
	Caps int `json:"caps,omitempty"`
}

// dedupe makes sure no two keys of one map sanitize to the same key (the
// winner would depend on map iteration order, which no one specifies).
func dedupe(m pbt.M, o *model.Opts) pbt.M {
	if m == nil || o == nil {
		return m
	}
	seen := map[string]bool{}
	out := pbt.M{}
	keys := make([]string, 0, len(m))
	for k := range m {
		keys = append(keys, string(k))
	}
	sortStrings(keys)
	for _, k := range keys {
		sk := o.SanKey(k)
		if seen[sk] {
			continue
		}
		seen[sk] = true
		out[pbt.S(k)] = m[pbt.S(k)]
	}
	return out
}

func sortStrings(s []string) {
	for i := 1; i < len(s); i++ {
		for j := i; j > 0 && s[j] < s[j-1]; j-- {
			s[j], s[j-1] = s[j-1], s[j]
		}
	}
}

func gen(t *rapid.T) Case {
	c := Case{Mode: rapid.SampledFrom([]string{"plain", "cached", "test"}).Draw(t, "mode")}
	var nm, ky, vl *rapid.Generator[pbt.S]
	var mo *model.Opts
	if c.Mode != "test" && rapid.IntRange(0, 2).Draw(t, "withSan") == 0 {
		o := san.GenOptions().Draw(t, "san")
		c.San = &o
		mo = o.Model()
		clip := func(g *rapid.Generator[pbt.S]) *rapid.Generator[pbt.S] {
			return rapid.Custom(func(t *rapid.T) pbt.S {
				s := g.Draw(t, "s")
				if len(s) > 16 {
					s = s[:16]
				}
				return s
			})
		}
		nm, ky, vl = clip(san.GenInput(o.Name, o.Repl)), clip(san.GenInput(o.Key, o.Repl)), clip(san.GenInput(o.Value, o.Repl))
	} else {
		nm, ky, vl = pbt.AnyString(), pbt.AnyString(), pbt.AnyString()
	}
	c.Prefix = rapid.OneOf(rapid.Just(pbt.S("")), nm).Draw(t, "prefix")
	c.Sep = rapid.OneOf(rapid.Just(pbt.S("")), rapid.Just(pbt.S(".")), rapid.Just(pbt.S("_")), rapid.Just(pbt.S("::")), rapid.Just(pbt.S("→")), nm).Draw(t, "sep")
	// a fifth of the cases are "wide": up to 10 root tags and up to 10 tags per Tagged call (the key
	// writer and the merge have size-dependent paths that three or four tags never reach)
	wide := rapid.IntRange(0, 4).Draw(t, "wide") == 0
	maxTags := 3
	if wide {
		maxTags = 10
	}
	c.RootTags = dedupe(pbt.MapOf(ky, vl, maxTags).Draw(t, "rootTags"), mo)
	c.RootMutate = rapid.IntRange(0, 3).Draw(t, "rootMutate")
	n := rapid.IntRange(0, 6).Draw(t, "nsteps")
	// a small pool of keys so that re-tagging the same key happens
	keyPool := rapid.SliceOfN(ky, 1, maxTags).Draw(t, "keyPool")
	for k := range c.RootTags {
		if len(keyPool) < 2*maxTags && rapid.Bool().Draw(t, "rootKeyInPool") {
			keyPool = append(keyPool, k) // re-tagging a key the root already carries
		}
	}
	for i := 0; i < n; i++ {
		if rapid.IntRange(0, 2).Draw(t, "isSub") == 0 {
			s := nm.Draw(t, "sub")
			c.Steps = append(c.Steps, Step{Sub: &s})
		} else {
			m := pbt.M{}
			k := rapid.IntRange(0, maxTags).Draw(t, "ntags")
			for j := 0; j < k; j++ {
				if rapid.Bool().Draw(t, "fromPool") {
					m[rapid.SampledFrom(keyPool).Draw(t, "pk")] = vl.Draw(t, "v")
				} else {
					m[ky.Draw(t, "k")] = vl.Draw(t, "v")
				}
			}
			if k == 0 && rapid.Bool().Draw(t, "nilmap") {
				m = nil
			}
			c.Steps = append(c.Steps, Step{Tags: dedupe(m, mo), Mutate: rapid.IntRange(0, 3).Draw(t, "mutate")})
		}
	}
	c.Metric = nm.Draw(t, "metric")
	c.Passes = rapid.IntRange(1, 3).Draw(t, "passes")
	c.Caps = rapid.SampledFrom([]int{0, 0, 0, 1, 2, 3}).Draw(t, "caps")
	return c
}

func mutate(m map[string]string, how int) {
	if m == nil {
		return
	}
	switch how {
	case 1:
		m["__added_by_caller__"] = "x"
	case 2:
		for k := range m {
			m[k] = m[k] + "-overwritten"
		}
	case 3:
		for k := range m {
			delete(m, k)
			break
		}
	}
}

func sameMap(a, b map[string]string) bool {
	if len(a) != len(b) {
		return false
	}
	for k, v := range a {
		if w, ok := b[k]; !ok || w != v {
			return false
		}
	}
	return true
}

func copyMap(m map[string]string) map[string]string {
	if m == nil {
		return nil
	}
	c := make(map[string]string, len(m))
	for k, v := range m {
		c[k] = v
	}
	return c
}

type created struct {
	ref  string
	keys []string
}

func run(c Case) (pbt.Outcome, error) {
	var errs pbt.Errs
	var out pbt.Outcome
	var mo *model.Opts
	opts := tally.ScopeOptions{Prefix: string(c.Prefix), Separator: string(c.Sep), OmitCardinalityMetrics: true}
	if c.San != nil {
		so := c.San.Tally()
		opts.SanitizeOptions = &so
		mo = c.San.Model()
	}
	rootTags := c.RootTags.Std()
	rootTagsBefore := copyMap(rootTags)
	opts.Tags = rootTags

	var log *rec.Log
	var root tally.Scope
	var ts tally.TestScope
	var ms model.Scope
	switch c.Mode {
	case "plain":
		r := rec.NewStats()
		r.Caps = rec.CapsOf(c.Caps)
		log = r.L
		opts.Reporter = r
		root, _ = tally.NewRootScope(opts, 0)
		ms = model.NewRoot(string(c.Prefix), string(c.Sep), rootTagsBefore, mo)
	case "cached":
		r := rec.NewCached()
		r.Caps = rec.CapsOf(c.Caps)
		log = r.L
		opts.CachedReporter = r
		root, _ = tally.NewRootScope(opts, 0)
		ms = model.NewRoot(string(c.Prefix), string(c.Sep), rootTagsBefore, mo)
	default:
		ts = tally.NewTestScope(string(c.Prefix), rootTags)
		root = ts
		ms = model.NewRoot(string(c.Prefix), "", rootTagsBefore, nil)
	}
	if !sameMap(rootTags, rootTagsBefore) {
		errs.Addf("root constructor mutated the caller's tag map: %v -> %v", rootTagsBefore, rootTags)
	}
	mutate(rootTags, c.RootMutate)

	// every scope created on the way, for the C05 ambiguity classification
	var all []created
	note := func(m model.Scope, rawKey string) {
		all = append(all, created{ref: model.RefKey(m.Prefix, m.Tags), keys: []string{model.LibKey(m.Prefix, m.Tags), rawKey}})
	}
	note(ms, model.LibKey(ms.Prefix, ms.Tags))

	s := root
	retagged := false
	mutated := c.RootMutate != 0 && len(rootTagsBefore) > 0
	var callerMaps [][2]map[string]string // the caller's map and a copy of how the caller left it
	for _, st := range c.Steps {
		if st.Sub != nil {
			s = s.SubScope(string(*st.Sub))
			ms = ms.Sub(string(*st.Sub))
			note(ms, model.LibKey(ms.Prefix, ms.Tags))
		} else {
			m := st.Tags.Std()
			before := copyMap(m)
			// raw lookup key the registry uses: parent's tags overlaid by the raw map
			rawMerged := copyMap(ms.Tags)
			if rawMerged == nil {
				rawMerged = map[string]string{}
			}
			for k, v := range before {
				rawMerged[k] = v
			}
			for k, v := range before {
				if old, ok := ms.Tags[mo.SanKey(k)]; ok && old != mo.SanValue(v) {
					retagged = true
				}
			}
			s = s.Tagged(m)
			if !sameMap(m, before) {
				errs.Addf("Tagged mutated the caller's map: %v -> %v", before, m)
			}
			ms = ms.Tagged(before)
			note(ms, model.LibKey(ms.Prefix, rawMerged))
			if st.Mutate != 0 && len(before) > 0 {
				mutated = true
			}
			mutate(m, st.Mutate)
			callerMaps = append(callerMaps, [2]map[string]string{m, copyMap(m)})
		}
	}

	// C05's recorded delimiter ambiguity: different identities, byte-equal canonical key
	ambiguous := false
	for i := range all {
		for j := range all {
			if all[i].ref == all[j].ref {
				continue
			}
			for _, ki := range all[i].keys {
				for _, kj := range all[j].keys {
					if ki == kj {
						ambiguous = true
					}
				}
			}
		}
	}
	if ambiguous && pbt.KnownOpen("C05", "key-delimiter-ambiguity") {
		out.Excluded = "C05/key-delimiter-ambiguity"
		return out, nil
	}

	name := string(c.Metric)
	wantName := ms.Metric(name)
	wantTags := ms.Tags
	cnt := s.Counter(name)
	g := s.Gauge(name)
	tm := s.Timer(name)
	h := s.Histogram(name, tally.ValueBuckets{1})
	for p := 0; p < c.Passes; p++ {
		cnt.Inc(int64(p + 1))
		g.Update(float64(p + 1))
		tm.Record(time.Duration(p + 1))
		h.RecordValue(float64(p))
		if c.Mode != "test" {
			tally.VerifReportOnce(root)
		}
	}

	kinds := map[string]int{}
	if c.Mode != "test" {
		for _, e := range log.Events() {
			switch e.Kind {
			case rec.KFlush, rec.KMark, rec.KBucketV, rec.KBucketD:
				continue
			}
			if e.Name != wantName {
				errs.Addf("%s delivered under name %q, derivation says %q", e.Kind, e.Name, wantName)
			}
			if !sameMap(e.Tags, wantTags) {
				errs.Addf("%s %q delivered with tags %v, derivation says %v", e.Kind, e.Name, e.Tags, wantTags)
			}
			kinds[e.Kind]++
		}
		want := map[string]int{rec.KCounter: c.Passes, rec.KGauge: c.Passes, rec.KTimer: c.Passes}
		if c.Mode == "cached" {
			want[rec.KAllocC], want[rec.KAllocG], want[rec.KAllocT], want[rec.KAllocH] = 1, 1, 1, 1
		}
		for k, n := range want {
			if kinds[k] != n {
				errs.Addf("%d %s events, want %d", kinds[k], k, n)
			}
		}
		if kinds[rec.KHValue] < 1 {
			errs.Addf("no histogram samples delivered")
		}
	} else {
		// "the tags delivered for one scope never change over its lifetime", whatever the reader of an
		// earlier snapshot did with the maps it was given (a snapshot is a copy)
		pre := ts.Snapshot()
		for _, e := range pre.Counters() {
			pbt.Spoil(e.Tags())
		}
		for _, e := range pre.Gauges() {
			pbt.Spoil(e.Tags())
		}
		for _, e := range pre.Timers() {
			pbt.Spoil(e.Tags())
		}
		for _, e := range pre.Histograms() {
			pbt.Spoil(e.Tags())
		}
		snap := ts.Snapshot()
		check := func(kind, n string, tags map[string]string, ok bool) {
			if !ok {
				errs.Addf("snapshot has no %s entry under the expected key for %q %v", kind, wantName, wantTags)
				return
			}
			if n != wantName || !sameMap(tags, wantTags) {
				errs.Addf("snapshot %s entry is (%q,%v), derivation says (%q,%v)", kind, n, tags, wantName, wantTags)
			}
		}
		key := tally.KeyForPrefixedStringMap(wantName, wantTags)
		if e, ok := snap.Counters()[key]; ok {
			check("counter", e.Name(), e.Tags(), true)
		} else {
			check("counter", "", nil, false)
		}
		if e, ok := snap.Gauges()[key]; ok {
			check("gauge", e.Name(), e.Tags(), true)
		} else {
			check("gauge", "", nil, false)
		}
		if e, ok := snap.Timers()[key]; ok {
			check("timer", e.Name(), e.Tags(), true)
		} else {
			check("timer", "", nil, false)
		}
		if e, ok := snap.Histograms()[key]; ok {
			check("histogram", e.Name(), e.Tags(), true)
		} else {
			check("histogram", "", nil, false)
		}
		if n := len(snap.Counters()); n != 1 {
			errs.Addf("snapshot has %d counters, want 1", n)
		}
	}

	// the maps stay the caller's: nothing - no pass, no snapshot - writes to them later either
	for _, cm := range callerMaps {
		if !sameMap(cm[0], cm[1]) {
			errs.Addf("a map handed to Tagged was written to after the call returned: the caller left it as %v, now %v", cm[1], cm[0])
		}
	}
	nonASCII := false
	for _, str := range []string{string(c.Prefix), string(c.Sep), name} {
		if str == "" || !utf8.ValidString(str) || len(str) != utf8.RuneCountInString(str) {
			nonASCII = true
		}
	}
	out.NonTrivial = (len(c.Steps) >= 2 && retagged) || mutated || (nonASCII && len(c.Steps) >= 1)
	out.Classes = append(out.Classes, c.Mode, fmt.Sprintf("depth=%d", len(c.Steps)))
	if retagged {
		out.Classes = append(out.Classes, "retagged")
	}
	if mutated {
		out.Classes = append(out.Classes, "caller-mutation")
	}
	if c.San != nil {
		out.Classes = append(out.Classes, "sanitizer")
	}
	return out, errs.Err()
}

func TestC04(t *testing.T) {
	pbt.Main(t, pbt.Prop[Case]{
		ID: "C04", Name: "derivation",
		Rule: "rapid-generated derivation programs: a root (any prefix, separator incl. empty and multi-byte, tags; no sanitizer with arbitrary byte strings, or generated SanitizeOptions) followed by 0..6 SubScope/Tagged steps drawing tag keys from a small pool so that keys get re-tagged, the caller's maps mutated (add/overwrite/delete) after each call, then one metric of every kind recorded over 1..3 report passes; observed via plain reporter, cached Allocate*/handles, or test-scope Snapshot (taken twice, the tag maps of the first one's entries scribbled over by the reader). Oracle: reference scope model (name fold, right-biased overlay, reference sanitizer); library never mutates caller maps; later caller-side mutation changes nothing; tags equal on every pass. Cases that fall into C05's recorded delimiter ambiguity (different identities with byte-equal canonical key) are counted as excluded only while that finding is listed open. Non-trivial: depth>=2 with a re-tagged key, or a caller map mutated after use, or an empty/non-ASCII/invalid-UTF-8 name component. Distinct: FNV-64 of the case JSON.",
		Gen:  gen, Run: run, HangAfter: 20 * time.Second,
	})
}

// ---------------------------------------------------------------- sibling derivations under a sanitizer

type SibCase struct {
	Cached   bool    `json:"cached"`
	Shards   uint    `json:"shards"`
	Sub      pbt.S   `json:"sub,omitempty"` // derive the siblings from this subscope instead of the root
	Siblings []pbt.M `json:"siblings"`
}

func genSib(t *rapid.T) SibCase {
	c := SibCase{Cached: rapid.Bool().Draw(t, "cached"), Shards: uint(rapid.SampledFrom([]int{1, 1, 1, 2, 16}).Draw(t, "shards"))}
	if rapid.Bool().Draw(t, "sub") {
		c.Sub = pbt.S(rapid.SampledFrom([]string{"s", "é", "s.t"}).Draw(t, "subname"))
	}
	val := rapid.Custom(func(t *rapid.T) pbt.S {
		n := rapid.IntRange(1, 3).Draw(t, "len")
		s := ""
		for i := 0; i < n; i++ {
			s += rapid.SampledFrom([]string{"é", "日", "_", "1", "a", "\xa9", "\xe6", "\x97", "\xa5", "."}).Draw(t, "ch")
		}
		return pbt.S(s)
	})
	n := rapid.IntRange(2, 8).Draw(t, "nsiblings")
	for i := 0; i < n; i++ {
		m := pbt.M{"k": val.Draw(t, "v")}
		if rapid.IntRange(0, 3).Draw(t, "two") == 0 {
			m[val.Draw(t, "k2")] = val.Draw(t, "v2")
		}
		c.Siblings = append(c.Siblings, m)
	}
	return c
}

func runSib(c SibCase) (pbt.Outcome, error) {
	var errs pbt.Errs
	var out pbt.Outcome
	so := tally.SanitizeOptions{
		NameCharacters:       tally.ValidCharacters{Ranges: tally.AlphanumericRange, Characters: tally.UnderscoreDashDotCharacters},
		KeyCharacters:        tally.ValidCharacters{Ranges: tally.AlphanumericRange, Characters: tally.UnderscoreCharacters},
		ValueCharacters:      tally.ValidCharacters{Ranges: tally.AlphanumericRange, Characters: tally.UnderscoreCharacters},
		ReplacementCharacter: '_',
	}
	mo := &model.Opts{Repl: '_'}
	alnum := [][2]rune{{'a', 'z'}, {'A', 'Z'}, {'0', '9'}}
	mo.Name = model.San{Ranges: alnum, Chars: []rune{'.', '-', '_'}}
	mo.Key = model.San{Ranges: alnum, Chars: []rune{'_'}}
	mo.Value = model.San{Ranges: alnum, Chars: []rune{'_'}}
	opts := tally.ScopeOptions{OmitCardinalityMetrics: true, SanitizeOptions: &so}
	var log *rec.Log
	if c.Cached {
		r := rec.NewCached()
		log = r.L
		opts.CachedReporter = r
	} else {
		r := rec.NewStats()
		log = r.L
		opts.Reporter = r
	}
	root, _ := tally.VerifNewRootScope(opts, 0, c.Shards)
	parent := root
	mparent := model.NewRoot("", "", nil, mo)
	if c.Sub != "" {
		parent = root.SubScope(string(c.Sub))
		mparent = mparent.Sub(string(c.Sub))
	}
	want := map[string]int64{}
	changed := false
	for i, tags := range c.Siblings {
		// no two keys of one map may sanitize to the same key (winner unspecified)
		std := dedupe(tags, mo).Std()
		ms := mparent.Tagged(std)
		d := int64(1) << uint(i)
		parent.Tagged(std).Counter("c").Inc(d)
		want[rec.ID(ms.Metric("c"), ms.Tags)] += d
		for k, v := range std {
			if mo.SanKey(k) != k || mo.SanValue(v) != v {
				changed = true
			}
		}
	}
	tally.VerifReportOnce(root)
	got := map[string]int64{}
	for _, e := range log.Events() {
		if e.Kind == rec.KCounter {
			got[rec.ID(e.Name, e.Tags)] += e.I
		}
	}
	if fmt.Sprint(got) != fmt.Sprint(want) {
		errs.Addf("sibling scopes under a sanitizer: delivered %v, derivation says %v", got, want)
	}
	out.NonTrivial = changed && len(want) >= 2
	if changed {
		out.Classes = append(out.Classes, "sanitizer-changed-something")
	}
	return out, errs.Err()
}

func TestSiblings(t *testing.T) {
	pbt.Main(t, pbt.Prop[SibCase]{
		ID: "C04", Name: "siblings",
		Rule: "rapid-generated sets of 2..8 sibling Tagged derivations from one parent (root or a subscope) of a root with an alphanumeric+'_' sanitizer, shard count 1/2/16, plain/cached: tag values of 1..3 pieces from {multi-byte runes, their trailing bytes as invalid UTF-8, '_', '1', 'a', '.'}, so that raw keys, sanitized keys and their byte-length differences overlap between siblings; each sibling increments its counter by a distinct power of two and, after a pass, the delivered total per (name, sanitized tags) must be exactly the sum over the siblings that the reference sanitizer maps to that identity. Non-trivial: the sanitizer changed some input and >=2 identities exist.",
		Gen:  genSib, Run: runSib, HangAfter: 20 * time.Second,
	})
}

// C16: thrift encoding round-trips and the size calculator agrees with the encoder.
package c16

import (
	"bytes"
	"errors"
	"fmt"
	"math"
	"testing"
	"time"

	customtransport "github.com/uber-go/tally/v4/m3/customtransports"
	m3thrift "github.com/uber-go/tally/v4/m3/thrift/v2"
	"github.com/uber-go/tally/v4/thirdparty/github.com/apache/thrift/lib/go/thrift"
	"pgregory.net/rapid"

	"verifharness/internal/pbt"
)

type Tag struct {
	N pbt.S `json:"n"`
	V pbt.S `json:"v"`
}

type Metric struct {
	Name    pbt.S `json:"name"`
	Kind    int64 `json:"kind"` // 0..3
	Count   int64 `json:"count,omitempty"`
	Gauge   pbt.F `json:"gauge,omitempty"`
	Timer   int64 `json:"timer,omitempty"`
	TS      int64 `json:"ts,omitempty"`
	Tags    []Tag `json:"tags,omitempty"`
	TagsSet bool  `json:"tagsSet,omitempty"` // Tags present (possibly empty) vs field absent
}

type Batch struct {
	Metrics   []Metric `json:"metrics"`
	Common    []Tag    `json:"common,omitempty"`
	CommonSet bool     `json:"commonSet,omitempty"`
}

type Item struct {
	What  string `json:"what"` // metric batch message
	Batch Batch  `json:"batch"`
	SeqID int32  `json:"seq,omitempty"`
	// FailAt > 0: the encoder's transport refuses to take more than this many bytes for this item
	// (as the UDP transport does for an over-long batch), the write fails part-way and the item is
	// given up. The items that follow go through the same protocol object and must be unaffected.
	FailAt int `json:"failAt,omitempty"`
}

// limitTransport refuses writes beyond limit bytes (0: no limit).
type limitTransport struct {
	thrift.TTransport
	limit, written int
}

var errLimit = errors.New("transport: message too long")

func (l *limitTransport) Write(b []byte) (int, error) {
	if l.limit > 0 && l.written+len(b) > l.limit {
		return 0, errLimit
	}
	l.written += len(b)
	return l.TTransport.Write(b)
}

type Case struct {
	Binary bool   `json:"binary"`
	Items  []Item `json:"items"`
	// Ser: after the items were judged one by one, all batches are encoded once more through ONE
	// reused thrift.TSerializer, every result is kept, and only then all of them are decoded:
	// an encoding, once returned, is the caller's
	Ser bool `json:"ser,omitempty"`
}

func genStr() *rapid.Generator[pbt.S] {
	return rapid.Custom(func(t *rapid.T) pbt.S {
		switch rapid.IntRange(0, 9).Draw(t, "strk") {
		case 0:
			n := rapid.SampledFrom([]int{126, 127, 128, 129, 255, 256, 600, 1024}).Draw(t, "len")
			b := make([]byte, n)
			fill := rapid.Byte().Draw(t, "fill")
			for i := range b {
				b[i] = fill + byte(i)
			}
			return pbt.S(b)
		default:
			return pbt.AnyString().Draw(t, "s")
		}
	})
}

func genTags(max int) *rapid.Generator[[]Tag] {
	return rapid.Custom(func(t *rapid.T) []Tag {
		if rapid.IntRange(0, 7).Draw(t, "tinyTags") == 0 {
			// the smallest encodings there are: several tags whose name and value are (almost all) empty -
			// more list elements than bytes of string data behind the list header
			n := rapid.IntRange(2, max).Draw(t, "ntiny")
			ts := make([]Tag, n)
			for i := range ts {
				if rapid.IntRange(0, 4).Draw(t, "nonEmpty") == 0 {
					ts[i] = Tag{pbt.S(rapid.SampledFrom([]string{"a", "", "b"}).Draw(t, "tn")), pbt.S(rapid.SampledFrom([]string{"", "v"}).Draw(t, "tv"))}
				}
			}
			return ts
		}
		return rapid.SliceOfN(rapid.Custom(func(t *rapid.T) Tag {
			return Tag{genStr().Draw(t, "tn"), genStr().Draw(t, "tv")}
		}), 0, max).Draw(t, "tags")
	})
}

func genMetric() *rapid.Generator[Metric] {
	return rapid.Custom(func(t *rapid.T) Metric {
		m := Metric{Name: genStr().Draw(t, "name"), Kind: int64(rapid.IntRange(0, 3).Draw(t, "kind"))}
		// fields of other kinds are sometimes populated too: the wire format carries all four
		if m.Kind == 1 || rapid.IntRange(0, 4).Draw(t, "xc") == 0 {
			m.Count = pbt.AnyInt64().Draw(t, "count")
		}
		if m.Kind == 2 || rapid.IntRange(0, 4).Draw(t, "xg") == 0 {
			m.Gauge = pbt.AnyFloat().Draw(t, "gauge")
		}
		if m.Kind == 3 || rapid.IntRange(0, 4).Draw(t, "xt") == 0 {
			m.Timer = pbt.AnyInt64().Draw(t, "timer")
		}
		m.TS = pbt.AnyInt64().Draw(t, "ts")
		m.TagsSet = rapid.Bool().Draw(t, "tagsSet")
		if m.TagsSet {
			m.Tags = genTags(16).Draw(t, "tags")
		}
		return m
	})
}

func gen(t *rapid.T) Case {
	c := Case{Binary: rapid.Bool().Draw(t, "binary"), Ser: rapid.IntRange(0, 2).Draw(t, "ser") == 0}
	n := rapid.IntRange(1, 4).Draw(t, "nitems")
	nfail := 0
	if rapid.IntRange(0, 2).Draw(t, "failing?") == 0 {
		nfail = rapid.IntRange(1, 7).Draw(t, "nfail")
	}
	for i := 0; i < n+nfail; i++ {
		it := Item{What: rapid.SampledFrom([]string{"metric", "batch", "batch", "message", "message", "client", "client"}).Draw(t, "what")}
		if i < nfail {
			it.FailAt = rapid.IntRange(1, 80).Draw(t, "failAt")
		}
		var nm int
		switch rapid.IntRange(0, 9).Draw(t, "sizek") {
		case 0:
			nm = rapid.SampledFrom([]int{14, 15, 16, 127, 128, 129, 500}).Draw(t, "big")
		default:
			nm = rapid.IntRange(0, 6).Draw(t, "nm")
		}
		if it.What == "metric" {
			nm = 1
		}
		if nm > 20 {
			proto := genMetric().Draw(t, "proto")
			for j := 0; j < nm; j++ {
				m := proto
				m.Count += int64(j)
				it.Batch.Metrics = append(it.Batch.Metrics, m)
			}
		} else {
			for j := 0; j < nm; j++ {
				it.Batch.Metrics = append(it.Batch.Metrics, genMetric().Draw(t, "m"))
			}
		}
		it.Batch.CommonSet = rapid.Bool().Draw(t, "commonSet")
		if it.Batch.CommonSet {
			it.Batch.Common = genTags(8).Draw(t, "common")
		}
		it.SeqID = int32(rapid.SampledFrom([]int{0, 1, 63, 64, 127, 128, 16383, 16384, 2097151, 2097152, math.MaxInt32, -1, math.MinInt32}).Draw(t, "seq"))
		c.Items = append(c.Items, it)
	}
	return c
}

func toTags(ts []Tag, set bool) []m3thrift.MetricTag {
	if !set {
		return nil
	}
	r := make([]m3thrift.MetricTag, 0, len(ts))
	for _, t := range ts {
		r = append(r, m3thrift.MetricTag{Name: string(t.N), Value: string(t.V)})
	}
	return r
}

func toMetric(m Metric) m3thrift.Metric {
	return m3thrift.Metric{
		Name:      string(m.Name),
		Value:     m3thrift.MetricValue{MetricType: m3thrift.MetricType(m.Kind), Count: m.Count, Gauge: m.Gauge.V(), Timer: m.Timer},
		Timestamp: m.TS,
		Tags:      toTags(m.Tags, m.TagsSet),
	}
}

func toBatch(b Batch) m3thrift.MetricBatch {
	mb := m3thrift.MetricBatch{Metrics: make([]m3thrift.Metric, 0, len(b.Metrics)), CommonTags: toTags(b.Common, b.CommonSet)}
	for _, m := range b.Metrics {
		mb.Metrics = append(mb.Metrics, toMetric(m))
	}
	return mb
}

func eqTags(a, b []m3thrift.MetricTag) bool {
	// an optional list that is set but empty is not the same value as an unset one (IsSetTags /
	// IsSetCommonTags differ), and the wire formats keep them apart
	if len(a) != len(b) || (a == nil) != (b == nil) {
		return false
	}
	for i := range a {
		if a[i] != b[i] {
			return false
		}
	}
	return true
}

func eqMetric(a, b m3thrift.Metric) bool {
	return a.Name == b.Name && a.Timestamp == b.Timestamp && a.Value.MetricType == b.Value.MetricType &&
		a.Value.Count == b.Value.Count && a.Value.Timer == b.Value.Timer &&
		math.Float64bits(a.Value.Gauge) == math.Float64bits(b.Value.Gauge) && eqTags(a.Tags, b.Tags)
}

func eqBatch(a, b m3thrift.MetricBatch) string {
	if len(a.Metrics) != len(b.Metrics) {
		return fmt.Sprintf("%d metrics decoded, %d encoded", len(b.Metrics), len(a.Metrics))
	}
	for i := range a.Metrics {
		if !eqMetric(a.Metrics[i], b.Metrics[i]) {
			return fmt.Sprintf("metric %d: encoded %+v decoded %+v", i, a.Metrics[i], b.Metrics[i])
		}
	}
	if !eqTags(a.CommonTags, b.CommonTags) {
		return fmt.Sprintf("common tags: encoded %v decoded %v", a.CommonTags, b.CommonTags)
	}
	return ""
}

// placeholder mirrors the reporter's recipe: own kind's field and the
// timestamp maximal, everything else as in the metric.
func placeholder(m m3thrift.Metric) m3thrift.Metric {
	p := m3thrift.Metric{Name: m.Name, Tags: m.Tags, Timestamp: math.MaxInt64}
	p.Value.MetricType = m.Value.MetricType
	switch m.Value.MetricType {
	case m3thrift.MetricType_COUNTER:
		p.Value.Count = math.MaxInt64
	case m3thrift.MetricType_GAUGE:
		p.Value.Gauge = math.MaxFloat64
	case m3thrift.MetricType_TIMER:
		p.Value.Timer = math.MaxInt64
	}
	return p
}

// batchSink is the handler behind the generated processor.
type batchSink struct {
	got      m3thrift.MetricBatch
	n, total int
}

func (b *batchSink) EmitMetricBatchV2(batch m3thrift.MetricBatch) error {
	b.got = batch
	b.n++
	b.total++
	return nil
}

func run(c Case) (pbt.Outcome, error) {
	var errs pbt.Errs
	var out pbt.Outcome
	var fac thrift.TProtocolFactory
	if c.Binary {
		fac = thrift.NewTBinaryProtocolFactoryDefault()
	} else {
		fac = thrift.NewTCompactProtocolFactory()
	}
	calc := &customtransport.TCalcTransport{}
	calcProto := fac.GetProtocol(calc) // reused for every structure of the case
	mem := thrift.NewTMemoryBuffer()
	lim := &limitTransport{TTransport: mem}
	encProto := fac.GetProtocol(lim) // reused
	measure := func(write func(p thrift.TProtocol) error) (int32, []byte, error) {
		calc.ResetCount()
		if err := write(calcProto); err != nil {
			return 0, nil, fmt.Errorf("calc write: %v", err)
		}
		n := calc.GetCount()
		mem.Reset()
		if err := write(encProto); err != nil {
			return 0, nil, fmt.Errorf("encode: %v", err)
		}
		if err := encProto.Flush(); err != nil {
			return 0, nil, err
		}
		return n, append([]byte(nil), mem.Bytes()...), nil
	}
	decProtoFor := func(b []byte) thrift.TProtocol {
		tr, _ := customtransport.NewTBufferedReadTransport(bytes.NewBuffer(b))
		return fac.GetProtocol(tr)
	}
	// the generated client, as the reporter uses it: ONE client (and its output protocol) for every
	// message of the case, writing to a transport of its own
	cmem := thrift.NewTMemoryBuffer()
	cli := m3thrift.NewM3ClientFactory(cmem, fac)
	// ... and the generated server side: ONE processor decodes every message of the case and hands
	// the batch to its handler
	sink := &batchSink{}
	proc := m3thrift.NewM3Processor(sink)
	viaProcessor := func(ii int, enc []byte, mb m3thrift.MetricBatch) {
		sink.got, sink.n = m3thrift.MetricBatch{}, 0
		ok, perr := proc.Process(decProtoFor(enc), fac.GetProtocol(thrift.NewTMemoryBuffer()))
		if perr != nil || !ok {
			errs.Addf("item %d: the processor could not handle the message: ok=%v err=%v", ii, ok, perr)
			return
		}
		if sink.n != 1 {
			errs.Addf("item %d: the processor called its handler %d times for one message", ii, sink.n)
			return
		}
		if s := eqBatch(mb, sink.got); s != "" {
			errs.Addf("item %d: decoded by the processor (message number %d through it): %s", ii, sink.total, s)
		}
	}
	failed := 0
	for ii, it := range c.Items {
		mb := toBatch(it.Batch)
		if it.What == "client" && it.FailAt > 0 {
			it.What = "message"
		}
		if it.FailAt > 0 {
			// a write the transport refuses part-way: abandoned, nothing judged, state stays behind
			lim.limit, lim.written = it.FailAt, 0
			var err error
			switch it.What {
			case "metric":
				if len(mb.Metrics) > 0 {
					err = mb.Metrics[0].Write(encProto)
				}
			case "batch":
				err = mb.Write(encProto)
			default:
				if err = encProto.WriteMessageBegin("emitMetricBatchV2", thrift.ONEWAY, it.SeqID); err == nil {
					err = (&m3thrift.M3EmitMetricBatchV2Args{Batch: mb}).Write(encProto)
				}
			}
			if err != nil {
				failed++
			}
			lim.limit, lim.written = 0, 0
			mem.Reset()
			continue
		}
		diffTagCounts := false
		for i := 1; i < len(mb.Metrics); i++ {
			if len(mb.Metrics[i].Tags) != len(mb.Metrics[0].Tags) {
				diffTagCounts = true
			}
		}
		if len(mb.Metrics) >= 2 && diffTagCounts {
			out.NonTrivial = true
		}
		for _, m := range mb.Metrics {
			if m.Value.Count == math.MaxInt64 || m.Value.Count == math.MinInt64 || m.Value.Timer == math.MaxInt64 || m.Value.Timer == math.MinInt64 || m.Timestamp == math.MinInt64 || m.Timestamp == math.MaxInt64 {
				out.NonTrivial = true
			}
		}
		switch it.What {
		case "metric":
			m := mb.Metrics[0]
			n, enc, err := measure(func(p thrift.TProtocol) error { return m.Write(p) })
			if err != nil {
				errs.Addf("item %d: %v", ii, err)
				continue
			}
			if int(n) != len(enc) {
				errs.Addf("item %d (metric): calc says %d bytes, encoder produced %d", ii, n, len(enc))
			}
			var d m3thrift.Metric
			if err := d.Read(decProtoFor(enc)); err != nil {
				errs.Addf("item %d (metric): decode error %v", ii, err)
			} else if !eqMetric(m, d) {
				errs.Addf("item %d (metric): round trip changed it: %+v -> %+v", ii, m, d)
			}
		case "batch":
			n, enc, err := measure(func(p thrift.TProtocol) error { return mb.Write(p) })
			if err != nil {
				errs.Addf("item %d: %v", ii, err)
				continue
			}
			if int(n) != len(enc) {
				errs.Addf("item %d (batch of %d): calc says %d bytes, encoder produced %d", ii, len(mb.Metrics), n, len(enc))
			}
			var d m3thrift.MetricBatch
			if err := d.Read(decProtoFor(enc)); err != nil {
				errs.Addf("item %d (batch): decode error %v", ii, err)
			} else if s := eqBatch(mb, d); s != "" {
				errs.Addf("item %d (batch): round trip: %s", ii, s)
			}
		case "client":
			cmem.Reset()
			if err := cli.EmitMetricBatchV2(mb); err != nil {
				errs.Addf("item %d (client): EmitMetricBatchV2: %v", ii, err)
				continue
			}
			enc := append([]byte(nil), cmem.Bytes()...)
			seq := cli.SeqId
			calc.ResetCount()
			werr := func(p thrift.TProtocol) error {
				if err := p.WriteMessageBegin("emitMetricBatchV2", thrift.ONEWAY, seq); err != nil {
					return err
				}
				args := m3thrift.M3EmitMetricBatchV2Args{Batch: mb}
				if err := args.Write(p); err != nil {
					return err
				}
				return p.WriteMessageEnd()
			}(calcProto)
			if werr != nil {
				errs.Addf("item %d (client): calc write: %v", ii, werr)
				continue
			}
			if n := calc.GetCount(); int(n) != len(enc) {
				errs.Addf("item %d (client): the calculator says %d bytes for the message (begin, arguments, end), the client emitted %d (message number %d through this client)", ii, n, len(enc), seq)
			}
			dp := decProtoFor(enc)
			name, typ, gotSeq, err := dp.ReadMessageBegin()
			if err != nil || name != "emitMetricBatchV2" || typ != thrift.ONEWAY || gotSeq != seq {
				errs.Addf("item %d (client): header decoded as (%q,%v,%d,%v), want (emitMetricBatchV2,ONEWAY,%d)", ii, name, typ, gotSeq, err, seq)
				continue
			}
			var args m3thrift.M3EmitMetricBatchV2Args
			if err := args.Read(dp); err != nil {
				errs.Addf("item %d (client): decode error %v", ii, err)
			} else if s := eqBatch(mb, args.Batch); s != "" {
				errs.Addf("item %d (client): round trip: %s", ii, s)
			}
			if err := dp.ReadMessageEnd(); err != nil {
				errs.Addf("item %d (client): ReadMessageEnd %v", ii, err)
			}
			viaProcessor(ii, enc, mb)
		case "message":
			write := func(p thrift.TProtocol) error {
				if err := p.WriteMessageBegin("emitMetricBatchV2", thrift.ONEWAY, it.SeqID); err != nil {
					return err
				}
				args := m3thrift.M3EmitMetricBatchV2Args{Batch: mb}
				if err := args.Write(p); err != nil {
					return err
				}
				return p.WriteMessageEnd()
			}
			n, enc, err := measure(write)
			if err != nil {
				errs.Addf("item %d: %v", ii, err)
				continue
			}
			if int(n) != len(enc) {
				errs.Addf("item %d (message): calc says %d bytes, encoder produced %d", ii, n, len(enc))
			}
			dp := decProtoFor(enc)
			name, typ, seq, err := dp.ReadMessageBegin()
			if err != nil || name != "emitMetricBatchV2" || typ != thrift.ONEWAY || seq != it.SeqID {
				errs.Addf("item %d (message): header decoded as (%q,%v,%d,%v), want (emitMetricBatchV2,ONEWAY,%d)", ii, name, typ, seq, err, it.SeqID)
				continue
			}
			var args m3thrift.M3EmitMetricBatchV2Args
			if err := args.Read(dp); err != nil {
				errs.Addf("item %d (message): decode error %v", ii, err)
			} else if s := eqBatch(mb, args.Batch); s != "" {
				errs.Addf("item %d (message): round trip: %s", ii, s)
			}
			if err := dp.ReadMessageEnd(); err != nil {
				errs.Addf("item %d (message): ReadMessageEnd %v", ii, err)
			}
			viaProcessor(ii, enc, mb)
		}
		// placeholder bound, per metric, for metrics shaped as the reporter builds them
		for mi, m := range mb.Metrics {
			if m.Value.MetricType == m3thrift.MetricType_INVALID {
				continue
			}
			real := m3thrift.Metric{Name: m.Name, Tags: m.Tags, Timestamp: m.Timestamp}
			real.Value.MetricType = m.Value.MetricType
			switch m.Value.MetricType {
			case m3thrift.MetricType_COUNTER:
				real.Value.Count = m.Value.Count
			case m3thrift.MetricType_GAUGE:
				real.Value.Gauge = m.Value.Gauge
			case m3thrift.MetricType_TIMER:
				real.Value.Timer = m.Value.Timer
			}
			ph := placeholder(m)
			calc.ResetCount()
			_ = ph.Write(calcProto)
			bound := calc.GetCount()
			mem.Reset()
			_ = real.Write(encProto)
			if int(bound) < mem.Len() {
				errs.Addf("item %d metric %d: placeholder size %d < real encoded size %d for %+v", ii, mi, bound, mem.Len(), real)
			}
			if mi > 8 {
				break
			}
		}
	}
	if c.Binary {
		out.Classes = append(out.Classes, "binary")
	} else {
		out.Classes = append(out.Classes, "compact")
	}
	if failed > 0 {
		out.Classes = append(out.Classes, fmt.Sprintf("after-%d-failed-writes", failed))
	}
	if c.Ser {
		smem := thrift.NewTMemoryBufferLen(64)
		ser := &thrift.TSerializer{Transport: smem, Protocol: fac.GetProtocol(smem)}
		type kept struct {
			ii  int
			mb  m3thrift.MetricBatch
			enc []byte
			str bool
		}
		var all []kept
		for ii, it := range c.Items {
			if it.FailAt > 0 {
				continue
			}
			mb := toBatch(it.Batch)
			if ii%3 == 2 {
				str, err := ser.WriteString(&mb)
				if err != nil {
					errs.Addf("item %d: TSerializer.WriteString: %v", ii, err)
					continue
				}
				all = append(all, kept{ii, mb, []byte(str), true})
				continue
			}
			enc, err := ser.Write(&mb)
			if err != nil {
				errs.Addf("item %d: TSerializer.Write: %v", ii, err)
				continue
			}
			all = append(all, kept{ii, mb, enc, false}) // kept as returned, not copied
		}
		for _, k := range all {
			var d m3thrift.MetricBatch
			if err := d.Read(decProtoFor(k.enc)); err != nil {
				errs.Addf("item %d: the encoding returned by the reused TSerializer no longer decodes after later encodings: %v", k.ii, err)
			} else if s := eqBatch(k.mb, d); s != "" {
				errs.Addf("item %d: the encoding returned by the reused TSerializer decodes to another batch after later encodings: %s", k.ii, s)
			}
		}
		out.Classes = append(out.Classes, "reused-serializer")
	}
	return out, errs.Err()
}

func TestC16(t *testing.T) {
	pbt.Main(t, pbt.Prop[Case]{
		ID: "C16", Name: "thrift",
		Rule: "rapid-generated sequences of 1..4 structures (single Metric, MetricBatch, full one-way emitMetricBatchV2 message - written by hand or sent through ONE generated M3Client, as the reporter does; every message is also decoded by ONE generated M3Processor) written through ONE reused calculating protocol and ONE reused encoding protocol (Compact or Binary): batches of 0..6 (occasionally 14/15/16/127/128/129/500) metrics, 0..16 tags, strings of arbitrary bytes up to 1 KiB incl. varint-length boundaries, int64/float64 extremes, optional fields present/absent/empty, sequence ids at varint boundaries. Oracles: decode(encode(x)) == x (nil == empty list), calc(x) == len(encode(x)), calc(placeholder with maximal own-kind value and timestamp) >= len(encode(real values)). Non-trivial: a batch with >=2 metrics of different tag counts, or a value needing the maximal varint. Distinct: FNV-64 of the case JSON.",
		Gen:  gen, Run: run, HangAfter: 20 * time.Second,
	})
}

func FuzzC16(f *testing.F) {
	pbt.Fuzz(f, pbt.Prop[Case]{ID: "C16", Name: "fuzz", Rule: "native coverage-guided fuzzing (go test -fuzz) of structure sequences through reused protocol objects: the fuzzer's bytes are rapid's random stream", Gen: gen, Run: run})
}

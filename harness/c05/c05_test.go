// C05: equal identities share one scope and metric; different identities never merge.
package c05

import (
	"fmt"
	"io"
	"testing"
	"time"

	tally "github.com/uber-go/tally/v4"
	"pgregory.net/rapid"

	"verifharness/internal/model"
	"verifharness/internal/pbt"
	"verifharness/internal/rec"
)

type KV struct {
	K pbt.S `json:"k"`
	V pbt.S `json:"v"`
}

type Step struct {
	Sub  *pbt.S `json:"sub,omitempty"`
	Tags []KV   `json:"tags,omitempty"` // one Tagged call (map built from these, later entry wins)
	Nil  bool   `json:"nil,omitempty"`  // Tagged(nil)
}

type Case struct {
	Shards uint   `json:"shards"`
	Cached bool   `json:"cached"`
	Rel    string `json:"rel"` // same | edit
	Edit   string `json:"edit,omitempty"`
	A      []Step `json:"a"`
	B      []Step `json:"b"`
	Metric pbt.S  `json:"metric"`
	// WithSan: the root has a sanitizer (printable ASCII and everything from U+00A0 up allowed);
	// every input is first mapped through the reference sanitizer, so that all inputs are ones
	// "the sanitizer leaves unchanged" and the registry's raw-key/sanitized-key paths are both used
	WithSan bool `json:"withSan,omitempty"`
	// Scratch: the caller builds every Tagged argument in ONE reused map object (cleared and
	// refilled per call, and filled with junk afterwards) - a common caller pattern; identities
	// must not depend on what happens to the caller's map after the call returned
	Scratch bool `json:"scratch,omitempty"`
	// Gone (k+1): before the two derivations, the scope reached by the first k steps of A gets a
	// prefix child SubScope("gone"), which records once, is closed and has been dropped by a report
	// pass - the life and death of a neighbour must not change who the two derivations reach
	Gone int `json:"gone,omitempty"`
	// the root's own prefix, tags and separator (empty separator: the default ".")
	RootPrefix pbt.S `json:"rootPrefix,omitempty"`
	RootTags   []KV  `json:"rootTags,omitempty"`
	Sep        pbt.S `json:"sep,omitempty"`
}

func str() *rapid.Generator[pbt.S] {
	return rapid.Custom(func(t *rapid.T) pbt.S {
		switch rapid.IntRange(0, 9).Draw(t, "sk") {
		case 0:
			return ""
		case 1, 2, 3:
			return pbt.S(rapid.StringMatching(`[ab,=+]{1,4}`).Draw(t, "delim"))
		case 4, 5, 6, 7:
			return pbt.S(rapid.StringMatching(`[a-c]{1,2}`).Draw(t, "plain"))
		default:
			return pbt.AnyString().Draw(t, "any")
		}
	})
}

// derive builds one derivation program that ends at prefix parts P and
// effective tags E: sub steps in order, tag entries permuted and grouped into
// Tagged calls placed anywhere, plus overridden "noise" assignments.
func derive(t *rapid.T, label string, P []pbt.S, E []KV) []Step {
	perm := rapid.Permutation(E).Draw(t, label+"perm")
	// split perm into groups
	var groups [][]KV
	for i := 0; i < len(perm); {
		n := rapid.IntRange(1, len(perm)-i).Draw(t, label+"gsz")
		groups = append(groups, perm[i:i+n])
		i += n
	}
	// optional noise: an early assignment of an existing key with another value, overridden later
	if len(perm) > 0 && rapid.IntRange(0, 2).Draw(t, label+"noise") == 0 {
		kv := perm[rapid.IntRange(0, len(perm)-1).Draw(t, label+"nk")]
		groups = append([][]KV{{KV{kv.K, kv.V + "~old"}}}, groups...)
	}
	// optional empty / nil Tagged calls
	if rapid.IntRange(0, 3).Draw(t, label+"empty") == 0 {
		groups = append(groups, nil)
	}
	// interleave: positions of groups among subs; noise group must stay before the group holding its key: keep group order
	var steps []Step
	gi, pi := 0, 0
	for gi < len(groups) || pi < len(P) {
		takeSub := pi < len(P) && (gi >= len(groups) || rapid.Bool().Draw(t, label+"sub?"))
		if takeSub {
			s := P[pi]
			steps = append(steps, Step{Sub: &s})
			pi++
		} else {
			g := groups[gi]
			if g == nil {
				steps = append(steps, Step{Nil: rapid.Bool().Draw(t, label+"nil")})
			} else {
				steps = append(steps, Step{Tags: append([]KV(nil), g...)})
			}
			gi++
		}
	}
	return steps
}

func gen(t *rapid.T) Case {
	c := Case{Shards: uint(rapid.SampledFrom([]int{1, 1, 2, 3, 4, 7, 16, 64}).Draw(t, "shards")), Cached: rapid.Bool().Draw(t, "cached")}
	np := rapid.IntRange(0, 3).Draw(t, "nparts")
	var P []pbt.S
	for i := 0; i < np; i++ {
		P = append(P, str().Draw(t, "part"))
	}
	ne := rapid.IntRange(0, 4).Draw(t, "ntags")
	seen := map[pbt.S]bool{}
	var E []KV
	for i := 0; i < ne; i++ {
		k := str().Draw(t, "k")
		if seen[k] {
			continue
		}
		seen[k] = true
		E = append(E, KV{k, str().Draw(t, "v")})
	}
	c.Rel = rapid.SampledFrom([]string{"same", "edit"}).Draw(t, "rel")
	// byte twins: the two derivations differ in ONE tag value (or key) only, and there only in an
	// invalid UTF-8 byte versus another invalid byte or U+FFFD, next to characters the key format
	// uses as delimiters (anything that decodes and re-encodes such a string merges the two)
	twin := rapid.IntRange(0, 9).Draw(t, "twin") == 0
	twinAt, twinKey := 0, false
	var twinBase, twinTail pbt.S
	if twin {
		if len(E) == 0 {
			E = append(E, KV{"k", ""})
		}
		twinAt = rapid.IntRange(0, len(E)-1).Draw(t, "twinAt")
		twinKey = rapid.IntRange(0, 3).Draw(t, "twinKey") == 0
		twinBase = pbt.S(rapid.StringMatching(`[ab,=+\\]{1,3}`).Draw(t, "twinBase"))
		twinTail = pbt.S(rapid.StringMatching(`[ab,=]{0,2}`).Draw(t, "twinTail"))
		if twinKey {
			E[twinAt] = KV{twinBase + "\xff" + twinTail, E[twinAt].V}
		} else {
			E[twinAt] = KV{E[twinAt].K, twinBase + "\xff" + twinTail}
		}
		c.Rel = "edit"
	}
	// backslash twins: one derivation has the single prefix part `x\` and the tag k, the other no
	// prefix and the tag `x+k` - different identities (and different canonical keys), which a key
	// writer that escapes its delimiters with a backslash, but not the backslash, would merge
	bsTwin := !twin && rapid.IntRange(0, 19).Draw(t, "bsTwin") == 0
	var bsBase pbt.S
	if bsTwin {
		if len(E) == 0 {
			E = append(E, KV{"k", "v"})
		}
		bsBase = pbt.S(rapid.StringMatching(`[ab]{0,2}`).Draw(t, "bsBase"))
		P = []pbt.S{bsBase + `\`}
		c.Rel = "edit"
	}
	if rapid.IntRange(0, 2).Draw(t, "rootcfg?") == 0 && !bsTwin {
		c.RootPrefix = str().Draw(t, "rootPrefix")
		for i, n := 0, rapid.IntRange(0, 2).Draw(t, "nroottags"); i < n; i++ {
			c.RootTags = append(c.RootTags, KV{str().Draw(t, "rk"), str().Draw(t, "rv")})
		}
		c.Sep = pbt.S(rapid.SampledFrom([]string{"", ".", "_", "::", "-", "+", "a"}).Draw(t, "sep"))
	}
	c.A = derive(t, "a", P, E)
	P2 := append([]pbt.S(nil), P...)
	E2 := append([]KV(nil), E...)
	if !twin && c.Rel == "same" && len(P2) >= 2 && rapid.IntRange(0, 2).Draw(t, "resplit?") == 0 {
		// the same full prefix reached through other SubScope boundaries: two adjacent parts are
		// asked for in one call, joined by the separator
		sep := string(c.Sep)
		if sep == "" {
			sep = "."
		}
		i := rapid.IntRange(0, len(P2)-2).Draw(t, "resplitAt")
		joined := P2[i] + pbt.S(sep) + P2[i+1]
		P2 = append(append(append([]pbt.S(nil), P2[:i]...), joined), P2[i+2:]...)
		c.Edit = "resplit"
	}
	if bsTwin {
		P2 = nil
		E2[0] = KV{bsBase + "+" + E2[0].K, E2[0].V}
		c.Edit = "backslash-twin"
	} else if twin {
		other := pbt.S(rapid.SampledFrom([]string{"\ufffd", "\xfe", "\xc3", "\xff\xff"}).Draw(t, "twinOther"))
		if twinKey {
			E2[twinAt] = KV{twinBase + other + twinTail, E2[twinAt].V}
		} else {
			E2[twinAt] = KV{E2[twinAt].K, twinBase + other + twinTail}
		}
		c.Edit = "byte-twin"
	} else if c.Rel == "edit" {
		var choices []string
		choices = append(choices, "addtag", "addpart")
		if len(P2) > 0 {
			choices = append(choices, "part", "droppart")
		}
		if len(E2) > 0 {
			choices = append(choices, "key", "value", "droptag", "move-delim")
		}
		c.Edit = rapid.SampledFrom(choices).Draw(t, "edit")
		switch c.Edit {
		case "part":
			i := rapid.IntRange(0, len(P2)-1).Draw(t, "ei")
			P2[i] = str().Draw(t, "newpart")
		case "droppart":
			i := rapid.IntRange(0, len(P2)-1).Draw(t, "ei")
			P2 = append(P2[:i:i], P2[i+1:]...)
		case "addpart":
			P2 = append(P2, str().Draw(t, "newpart"))
		case "key":
			i := rapid.IntRange(0, len(E2)-1).Draw(t, "ei")
			nk := str().Draw(t, "newkey")
			if !seen[nk] {
				E2[i] = KV{nk, E2[i].V}
			} else {
				E2[i] = KV{E2[i].K + "'", E2[i].V}
			}
		case "value":
			i := rapid.IntRange(0, len(E2)-1).Draw(t, "ei")
			E2[i] = KV{E2[i].K, str().Draw(t, "newvalue")}
		case "droptag":
			i := rapid.IntRange(0, len(E2)-1).Draw(t, "ei")
			E2 = append(E2[:i:i], E2[i+1:]...)
		case "addtag":
			nk := str().Draw(t, "newkey")
			if seen[nk] {
				nk += "'"
			}
			E2 = append(E2, KV{nk, str().Draw(t, "newvalue")})
		case "move-delim":
			// the hostile edit: fold the next pair into this value ("a=1","b=2" -> "a=1,b=2")
			i := rapid.IntRange(0, len(E2)-1).Draw(t, "ei")
			j := (i + 1) % len(E2)
			if i != j {
				E2[i] = KV{E2[i].K, E2[i].V + "," + E2[j].K + "=" + E2[j].V}
				E2 = append(E2[:j:j], E2[j+1:]...)
			} else {
				E2[i] = KV{E2[i].K, E2[i].V + ","}
			}
		}
	}
	c.B = derive(t, "b", P2, E2)
	c.Metric = str().Draw(t, "metric")
	c.WithSan = rapid.IntRange(0, 2).Draw(t, "withSan") == 0
	c.Scratch = rapid.IntRange(0, 2).Draw(t, "scratch") == 0
	if rapid.IntRange(0, 2).Draw(t, "gone?") == 0 {
		c.Gone = 1 + rapid.IntRange(0, len(c.A)).Draw(t, "gone")
	}
	return c
}

type scopeInfo struct {
	m    model.Scope
	keys []string
}

func apply(root tally.Scope, mroot model.Scope, steps []Step, all *[]scopeInfo, scratch map[string]string) (tally.Scope, model.Scope) {
	s, ms := root, mroot
	for _, st := range steps {
		if st.Sub != nil {
			s = s.SubScope(string(*st.Sub))
			ms = ms.Sub(string(*st.Sub))
		} else {
			var m map[string]string
			if !st.Nil {
				m = map[string]string{}
				if scratch != nil {
					m = scratch
					for k := range m {
						delete(m, k)
					}
				}
				for _, kv := range st.Tags {
					m[string(kv.K)] = string(kv.V)
				}
			}
			s = s.Tagged(m)
			ms = ms.Tagged(m)
			if scratch != nil && !st.Nil {
				for k := range m {
					m[k] += "~reused"
				}
				m["~junk"] = "x"
			}
		}
		*all = append(*all, scopeInfo{ms, []string{model.LibKey(ms.Prefix, ms.Tags)}})
	}
	return s, ms
}

func run(c Case) (pbt.Outcome, error) {
	var errs pbt.Errs
	var out pbt.Outcome
	opts := tally.ScopeOptions{OmitCardinalityMetrics: true}
	if c.WithSan {
		rs := []tally.SanitizeRange{{0x20, 0x7E}, {0xA0, 0x10FFFF}}
		opts.SanitizeOptions = &tally.SanitizeOptions{
			NameCharacters: tally.ValidCharacters{Ranges: rs}, KeyCharacters: tally.ValidCharacters{Ranges: rs},
			ValueCharacters: tally.ValidCharacters{Ranges: rs}, ReplacementCharacter: '_',
		}
		ref := model.San{Ranges: [][2]rune{{0x20, 0x7E}, {0xA0, 0x10FFFF}}}
		fix := func(x pbt.S) pbt.S { return pbt.S(ref.Sanitize(string(x), '_')) }
		fixSteps := func(steps []Step) []Step {
			out := make([]Step, len(steps))
			for i, st := range steps {
				out[i] = Step{Nil: st.Nil}
				if st.Sub != nil {
					v := fix(*st.Sub)
					out[i].Sub = &v
				}
				for _, kv := range st.Tags {
					out[i].Tags = append(out[i].Tags, KV{fix(kv.K), fix(kv.V)})
				}
			}
			return out
		}
		c.A, c.B, c.Metric = fixSteps(c.A), fixSteps(c.B), fix(c.Metric)
		c.RootPrefix, c.Sep = fix(c.RootPrefix), fix(c.Sep)
		var rt []KV
		for _, kv := range c.RootTags {
			rt = append(rt, KV{fix(kv.K), fix(kv.V)})
		}
		c.RootTags = rt
	}
	var log *rec.Log
	if c.Cached {
		r := rec.NewCached()
		log = r.L
		opts.CachedReporter = r
	} else {
		r := rec.NewStats()
		log = r.L
		opts.Reporter = r
	}
	rootTags := map[string]string{}
	for _, kv := range c.RootTags {
		rootTags[string(kv.K)] = string(kv.V)
	}
	opts.Prefix, opts.Separator = string(c.RootPrefix), string(c.Sep)
	if len(rootTags) > 0 {
		opts.Tags = rootTags
	}
	root, _ := tally.VerifNewRootScope(opts, 0, c.Shards)
	mroot := model.NewRoot(string(c.RootPrefix), string(c.Sep), rootTags, nil)
	all := []scopeInfo{{mroot, []string{model.LibKey(mroot.Prefix, mroot.Tags)}}}
	var scratch map[string]string
	if c.Scratch {
		scratch = map[string]string{}
	}
	goneID := ""
	if c.Gone > 0 {
		k := c.Gone - 1
		if k > len(c.A) {
			k = len(c.A)
		}
		var tmp []scopeInfo
		sp, mp := apply(root, mroot, c.A[:k], &tmp, scratch)
		ch := sp.SubScope("gone")
		ch.Counter("g").Inc(1)
		if cl, ok := ch.(io.Closer); ok {
			_ = cl.Close()
		}
		tally.VerifReportOnce(root)
		mg := mp.Sub("gone")
		goneID = rec.ID(mg.Metric("g"), mg.Tags)
	}
	sa, ma := apply(root, mroot, c.A, &all, scratch)
	sb, mb := apply(root, mroot, c.B, &all, scratch)
	// once more: idempotence of the whole derivation
	var all2 []scopeInfo
	sa2, _ := apply(root, mroot, c.A, &all2, scratch)

	// classification against the recorded delimiter ambiguity
	ambiguous := false
	hasDelim := false
	for i := range all {
		for j := range all {
			if model.RefKey(all[i].m.Prefix, all[i].m.Tags) != model.RefKey(all[j].m.Prefix, all[j].m.Tags) && all[i].keys[0] == all[j].keys[0] {
				ambiguous = true
			}
		}
	}
	for _, si := range all {
		for _, ch := range si.keys[0] {
			_ = ch
		}
	}
	for _, steps := range [][]Step{c.A, c.B} {
		for _, st := range steps {
			strs := []string{}
			if st.Sub != nil {
				strs = append(strs, string(*st.Sub))
			}
			for _, kv := range st.Tags {
				strs = append(strs, string(kv.K), string(kv.V))
			}
			for _, s := range strs {
				for _, ch := range s {
					if ch == ',' || ch == '=' || ch == '+' {
						hasDelim = true
					}
				}
			}
		}
	}
	if ambiguous && pbt.KnownOpen("C05", "key-delimiter-ambiguity") {
		out.Excluded = "C05/key-delimiter-ambiguity"
		return out, nil
	}

	sameID := model.RefKey(ma.Prefix, ma.Tags) == model.RefKey(mb.Prefix, mb.Tags)
	name := string(c.Metric)
	if sa != sa2 {
		errs.Addf("repeating derivation A returned a different scope (identity %q %v)", ma.Prefix, ma.Tags)
	}
	ca, cb := sa.Counter(name), sb.Counter(name)
	if sa.Counter(name) != ca || sa.Gauge(name) != sa.Gauge(name) || sa.Timer(name) != sa.Timer(name) || sa.Histogram(name, nil) != sa.Histogram(name, nil) {
		errs.Addf("asking a scope twice for the same metric returned different objects")
	}
	// the same name asked for again is the same histogram whatever bucket argument comes with the
	// later request (nil, the defaults, another set, a set of the other kind): the first creation
	// decides, and what was recorded through the first handle stays deliverable
	hname := name + "-hx"
	h1 := sa.Histogram(hname, tally.ValueBuckets{1, 2})
	for _, later := range []tally.Buckets{nil, tally.DefaultBuckets, tally.ValueBuckets{5}, tally.DurationBuckets{time.Second}, tally.ValueBuckets{1, 2}} {
		if sa.Histogram(hname, later) != h1 {
			errs.Addf("Histogram(%q) asked for again with buckets %v returned a different object than the first request (ValueBuckets{1,2})", hname, later)
		}
	}
	if sameID {
		if sa != sb {
			errs.Addf("derivations with the same identity (prefix %q, tags %v) returned different scopes", ma.Prefix, ma.Tags)
		}
		if ca != cb {
			errs.Addf("same identity but different counter objects")
		}
	} else {
		if sa == sb {
			errs.Addf("derivations with different identities (%q %v) vs (%q %v) returned the SAME scope", ma.Prefix, ma.Tags, mb.Prefix, mb.Tags)
		}
		if ca == cb {
			errs.Addf("different identities share one counter object")
		}
	}
	ca.Inc(3)
	cb.Inc(5)
	tally.VerifReportOnce(root)
	got := map[string]int64{}
	for _, e := range log.Events() {
		if e.Kind == rec.KCounter {
			got[rec.ID(e.Name, e.Tags)] += e.I
		}
	}
	ida, idb := rec.ID(ma.Metric(name), ma.Tags), rec.ID(mb.Metric(name), mb.Tags)
	want := map[string]int64{}
	want[ida] += 3
	want[idb] += 5
	if goneID != "" {
		want[goneID]++
	}
	if fmt.Sprint(got) != fmt.Sprint(want) {
		errs.Addf("delivered counters %v, want %v (A: %q %v, B: %q %v)", got, want, ma.Metric(name), ma.Tags, mb.Metric(name), mb.Tags)
	}

	out.NonTrivial = true
	out.Classes = append(out.Classes, c.Rel+":"+c.Edit, fmt.Sprintf("shards=%d", c.Shards))
	if hasDelim {
		out.Classes = append(out.Classes, "has-delimiter")
	}
	if c.WithSan {
		out.Classes = append(out.Classes, "sanitizer-configured")
	}
	if c.Gone > 0 {
		out.Classes = append(out.Classes, "neighbour-closed-and-dropped")
	}
	if c.RootPrefix != "" || len(c.RootTags) > 0 || c.Sep != "" {
		out.Classes = append(out.Classes, "root-with-prefix-tags-or-separator")
	}
	if sameID {
		out.Classes = append(out.Classes, "same-identity")
	} else {
		out.Classes = append(out.Classes, "different-identity")
	}
	return out, errs.Err()
}

func TestScopes(t *testing.T) {
	pbt.Main(t, pbt.Prop[Case]{
		ID: "C05", Name: "scopes",
		Rule: "rapid-generated PAIRS of derivation programs from one root (registry shard count 1..64 via the verif constructor shim; plain/cached; in a third of the cases the root has a prefix, tags of its own and a separator from {default, '.', '_', '::', '-', '+', 'a'}): both derived from prefix parts P and effective tags E by permuting and regrouping the assignments into Tagged calls interleaved with the SubScope steps (plus overridden noise assignments, empty and nil maps); relation 'same' keeps (P,E) - or asks for two adjacent prefix parts in ONE SubScope call, joined by the separator -, relation 'edit' applies exactly one edit (change/add/drop a prefix part, key, value or tag, or fold the next pair into a value with the key format's own delimiters; or the pair {prefix `x\\`, tag k} versus {no prefix, tag `x+k`}). Alphabet rich in ',', '=', '+' and the empty string; in a third of the cases the root has a sanitizer and all inputs are ones it leaves unchanged; in a third, a prefix child of one of A's intermediate scopes recorded, was closed and was dropped by a report pass before the two derivations are made. Oracle: same identity => pointer-equal scopes and metrics (also when asked twice); different identity => different pointers and increments 3/5 arrive only under their own (name,tags). Pairs of different identities whose reference canonical key strings are byte-equal are the recorded delimiter ambiguity: excluded only while listed open. Every generated pair is non-trivial by construction (regrouped or one edit apart). Distinct: FNV-64 of the case JSON.",
		Gen:  gen, Run: run, HangAfter: 20 * time.Second,
	})
}

// ---------------------------------------------------------------- key function

type KeyCase struct {
	Prefix  pbt.S  `json:"prefix"`
	Maps    [][]KV `json:"maps"`
	Prefix2 pbt.S  `json:"prefix2"`
	Other   []KV   `json:"other"`
}

func genKey(t *rapid.T) KeyCase {
	c := KeyCase{Prefix: str().Draw(t, "prefix")}
	n := rapid.IntRange(0, 4).Draw(t, "nmaps")
	// a fifth of the cases are wide: up to 12 keys per map over a pool of up to 16 keys (the key writer
	// has size-dependent paths: sort algorithm, buffer growth)
	maxKeys := 4
	if rapid.IntRange(0, 4).Draw(t, "wide") == 0 {
		maxKeys = 12
	}
	keys := rapid.SliceOfN(str(), 1, maxKeys+4).Draw(t, "keys")
	for i := 0; i < n; i++ {
		var m []KV
		k := rapid.IntRange(0, maxKeys).Draw(t, "n")
		for j := 0; j < k; j++ {
			m = append(m, KV{rapid.SampledFrom(keys).Draw(t, "k"), str().Draw(t, "v")})
		}
		c.Maps = append(c.Maps, m)
	}
	c.Prefix2 = rapid.OneOf(rapid.Just(c.Prefix), str()).Draw(t, "prefix2")
	k := rapid.IntRange(0, 4).Draw(t, "nother")
	for j := 0; j < k; j++ {
		c.Other = append(c.Other, KV{rapid.SampledFrom(keys).Draw(t, "ok"), str().Draw(t, "ov")})
	}
	return c
}

func build(kvs []KV, reverse bool) map[string]string {
	m := map[string]string{}
	// later entry wins; build in two different insertion orders
	final := map[string]string{}
	for _, kv := range kvs {
		final[string(kv.K)] = string(kv.V)
	}
	if reverse {
		for i := len(kvs) - 1; i >= 0; i-- {
			m[string(kvs[i].K)] = final[string(kvs[i].K)]
		}
	} else {
		for _, kv := range kvs {
			m[string(kv.K)] = final[string(kv.K)]
		}
	}
	return m
}

func runKey(c KeyCase) (pbt.Outcome, error) {
	var errs pbt.Errs
	var out pbt.Outcome
	var maps, mapsRev []map[string]string
	merged := map[string]string{}
	for _, kvs := range c.Maps {
		m := build(kvs, false)
		maps = append(maps, m)
		mapsRev = append(mapsRev, build(kvs, true))
		for k, v := range m {
			merged[k] = v
		}
	}
	p := string(c.Prefix)
	k1 := tally.VerifKeyForPrefixedStringMaps(p, maps...)
	for i := 0; i < 3; i++ {
		if k := tally.VerifKeyForPrefixedStringMaps(p, mapsRev...); k != k1 {
			errs.Addf("key depends on map construction/iteration order: %q vs %q", k1, k)
		}
	}
	km := tally.KeyForPrefixedStringMap(p, merged)
	if k1 != km {
		errs.Addf("key of maps %v = %q but key of their right-biased merge %v = %q", maps, k1, merged, km)
	}
	if tally.KeyForStringMap(merged) != tally.KeyForPrefixedStringMap("", merged) {
		errs.Addf("KeyForStringMap disagrees with the empty-prefix key")
	}
	// injectivity against another (prefix, map)
	other := build(c.Other, false)
	p2 := string(c.Prefix2)
	ko := tally.KeyForPrefixedStringMap(p2, other)
	same := model.RefKey(p, merged) == model.RefKey(p2, other)
	if same && ko != km {
		errs.Addf("equal (prefix,map) gave different keys %q / %q", km, ko)
	}
	if !same && ko == km {
		if model.LibKey(p, merged) == model.LibKey(p2, other) && pbt.KnownOpen("C05", "key-delimiter-ambiguity") {
			out.Excluded = "C05/key-delimiter-ambiguity"
			return out, nil
		}
		errs.Addf("different identities (%q,%v) and (%q,%v) have the same key %q", p, merged, p2, other, km)
	}
	out.NonTrivial = len(c.Maps) >= 2 || !same
	return out, errs.Err()
}

func TestKeyFn(t *testing.T) {
	pbt.Main(t, pbt.Prop[KeyCase]{
		ID: "C05", Name: "keyfn",
		Rule: "rapid-generated (prefix, 0..4 maps over a shared small key pool) for the public key functions, each map built in two insertion orders: key deterministic, independent of construction order, key(p, m1..mk) == key(p, right-biased merge), KeyForStringMap == empty-prefix key, and a second generated (prefix, map) must get a different key iff it is a different identity (byte-equal reference canonical keys of different identities = the recorded delimiter ambiguity, excluded only while listed open). Non-trivial: >=2 maps merged or a different-identity comparison. Distinct: FNV-64 of the case JSON.",
		Gen:  genKey, Run: runKey, HangAfter: 20 * time.Second,
	})
}

// TestKnownFindings probes the deterministic witness of every finding that
// known_findings.json lists as open for this property and prints one
// KNOWN-FINDING line per witness that still fails. It never fails the run.
func TestKnownFindings(t *testing.T) {
	if !pbt.KnownOpen("C05", "key-delimiter-ambiguity") {
		return
	}
	r := rec.NewStats()
	root, _ := tally.NewRootScope(tally.ScopeOptions{Reporter: r, OmitCardinalityMetrics: true}, 0)
	a := root.Tagged(map[string]string{"a": "1,b=2"})
	b := root.Tagged(map[string]string{"a": "1", "b": "2"})
	ka := tally.KeyForStringMap(map[string]string{"a": "1,b=2"})
	kb := tally.KeyForStringMap(map[string]string{"a": "1", "b": "2"})
	if a == b || ka == kb {
		fmt.Println("KNOWN-FINDING: property=C05 key-delimiter-ambiguity: the canonical key does not escape its delimiters ',' '=' '+': Tagged({a:\"1,b=2\"}) and Tagged({a:\"1\",b:\"2\"}) are one scope and KeyForStringMap gives both the key \"a=1,b=2\"")
	}
}

func FuzzKeyFn(f *testing.F) {
	pbt.Fuzz(f, pbt.Prop[KeyCase]{ID: "C05", Name: "fuzz-keyfn", Rule: "native coverage-guided fuzzing (go test -fuzz) of the key-function laws: the fuzzer's bytes are rapid's random stream", Gen: genKey, Run: runKey})
}

func FuzzScopes(f *testing.F) {
	pbt.Fuzz(f, pbt.Prop[Case]{ID: "C05", Name: "fuzz-scopes", Rule: "native coverage-guided fuzzing (go test -fuzz) of derivation pairs: the fuzzer's bytes are rapid's random stream", Gen: gen, Run: run})
}

// C13: M3 delivers every reported value exactly once and intact.
package c13

import (
	"fmt"
	"math"
	"os"
	"sort"
	"strconv"
	"strings"
	"sync"
	"testing"
	"time"

	tally "github.com/uber-go/tally/v4"
	"github.com/uber-go/tally/v4/m3"
	m3thrift "github.com/uber-go/tally/v4/m3/thrift/v2"
	"pgregory.net/rapid"

	"verifharness/internal/collide"
	"verifharness/internal/m3h"
	"verifharness/internal/pbt"
	"verifharness/internal/udpsink"
)

type POp struct {
	K    string `json:"k"` // counter gauge timer vhist dhist flush
	Name pbt.S  `json:"name,omitempty"`
	Tags pbt.M  `json:"tags,omitempty"`
	I    int64  `json:"i,omitempty"`
	F    pbt.F  `json:"f,omitempty"`
	NB   int    `json:"nb,omitempty"` // histogram: number of bounds
	B    int    `json:"b,omitempty"`  // histogram: bucket index
	Rep  int    `json:"rep,omitempty"`
	// Pad > 0: the name is padded to this many bytes, more than MaxPacketSizeBytes: the metric
	// cannot share a packet with anything and does not even fit one - it must still be delivered,
	// exactly once (the size bound of C12 is conditional on every metric fitting; delivery is not)
	Pad int `json:"pad,omitempty"`
	// Coll (histograms): a histogram with the plain specification is allocated first under another
	// name, and THIS histogram gets a different specification of the same kind that has the same
	// identity in the library's bucket caches (collide.Companions); its bucket tags must be its own
	Coll bool `json:"coll,omitempty"`
}

type Case struct {
	Binary bool  `json:"binary"`
	Dests  int   `json:"dests"`
	Queue  int   `json:"queue"`
	Common pbt.M `json:"common,omitempty"`
	// IncludeHost (not with ViaConfig): 1: Options.IncludeHost without a host among the common tags
	// (every batch then carries host=<machine name> as well); 2: with host=custom-host (kept); 3: with
	// host="" (replaced by the machine name)
	IncludeHost int `json:"includeHost,omitempty"`
	// Precision (not with ViaConfig): Options.HistogramBucketTagPrecision (0: the default 6)
	Precision  uint   `json:"precision,omitempty"`
	MaxPacket  int32  `json:"maxPacket"`
	IDName     string `json:"idName,omitempty"`
	BucketName string `json:"bucketName,omitempty"`
	// ViaConfig (Compact protocol and default bucket tag names only - the configuration struct has no
	// fields for the others): the reporter is built through m3.Configuration.NewReporter. 1: HostPorts
	// lists the destinations and HostPort (a required field of the struct) repeats the first of them,
	// as a validated multi-destination configuration does; 2: HostPorts only.
	ViaConfig int     `json:"viaConfig,omitempty"`
	Producers [][]POp `json:"producers"`
	// SharedBurst > 0: every producer additionally reports SharedBurst distinct values through
	// ONE counter, ONE gauge and ONE timer handle shared by all producers
	SharedBurst int `json:"sharedBurst,omitempty"`
	// Dead > 0: an unreachable destination (nobody listens on its port: sends fail with
	// ECONNREFUSED) is inserted at position Dead-1 (mod Dests+1) of the host list. Every live
	// destination, before or after it, must still get everything exactly once.
	Dead int `json:"dead,omitempty"`
	// OtherMS > 0: ANOTHER M3 reporter of the same process is created OtherMS milliseconds before
	// this one and stays open throughout (reporters must not share state such as a clock: the
	// timestamps of this reporter are bounded by ITS construction)
	OtherMS int `json:"otherMS,omitempty"`
	// Wide > 0: one more histogram "wide-h" with that many bounds (value or duration flavour) is
	// allocated after the producers are done; the buckets WideIdx (mod the number of buckets) each
	// get index+1 samples, so that a decoded bucket metric tells which bucket it is, and the bucket
	// ids can be compared: "ids increasing with the bounds" - as the strings they are, and as numbers
	Wide    int   `json:"wide,omitempty"`
	WideDur bool  `json:"wideDur,omitempty"`
	WideIdx []int `json:"wideIdx,omitempty"`
}

func tagStr() *rapid.Generator[pbt.S] {
	return rapid.Custom(func(t *rapid.T) pbt.S {
		switch rapid.IntRange(0, 5).Draw(t, "tk") {
		case 0:
			return pbt.S(rapid.SampledFrom([]string{"a", "a=b", "b=c", "c", "b", "=", "a=", "=b", ""}).Draw(t, "eq"))
		case 1, 2, 3:
			return pbt.S(rapid.StringMatching(`[ab=]{1,3}`).Draw(t, "short"))
		default:
			return pbt.AnyString().Draw(t, "any")
		}
	})
}

func gen(t *rapid.T) Case {
	c := Case{Binary: rapid.Bool().Draw(t, "binary"), Dests: rapid.IntRange(1, 3).Draw(t, "dests"), Queue: rapid.SampledFrom([]int{1, 2, 8, 4096, 0}).Draw(t, "queue")}
	c.Common = pbt.MapOf(pbt.PlainString(), pbt.AnyString(), 3).Draw(t, "common")
	if rapid.IntRange(0, 3).Draw(t, "includeHost?") == 0 {
		c.IncludeHost = rapid.IntRange(1, 3).Draw(t, "includeHost")
	}
	if rapid.IntRange(0, 3).Draw(t, "precision?") == 0 {
		c.Precision = uint(rapid.SampledFrom([]int{1, 2, 12, 40}).Draw(t, "precision"))
	}
	// 0: the reporter's default packet size; 65000: the most the UDP transport takes
	c.MaxPacket = int32(rapid.SampledFrom([]int{1440, 1440, 4000, 32768, 0, 0, 65000}).Draw(t, "maxPacket"))
	if rapid.IntRange(0, 4).Draw(t, "customNames") == 0 {
		c.IDName, c.BucketName = "bid", "le"
	}
	if !c.Binary && c.IDName == "" && rapid.IntRange(0, 3).Draw(t, "viaConfig?") == 0 {
		c.ViaConfig = rapid.IntRange(1, 2).Draw(t, "viaConfig")
	}
	np := rapid.IntRange(1, 4).Draw(t, "nproducers")
	for p := 0; p < np; p++ {
		n := rapid.IntRange(1, 12).Draw(t, "nops")
		var ops []POp
		for i := 0; i < n; i++ {
			op := POp{K: rapid.SampledFrom([]string{"counter", "counter", "gauge", "timer", "vhist", "dhist", "flush"}).Draw(t, "k")}
			if op.K != "flush" {
				op.Name = pbt.S("m" + string(pbt.AnyString().Draw(t, "name")))
				if len(op.Name) > 200 {
					op.Name = op.Name[:200]
				}
				maxTags := 3
				if rapid.IntRange(0, 7).Draw(t, "manytags?") == 0 {
					maxTags = 16 // more than a pooled tag slice of the reporter holds
				}
				op.Tags = pbt.MapOf(tagStr(), tagStr(), maxTags).Draw(t, "tags")
				if rapid.IntRange(0, 5).Draw(t, "bucketTag?") == 0 {
					// a tag named like one of the reporter's bucket tags (default or custom names): ordinary
					// user data on counters, gauges and timers, and on histograms it travels next to the
					// reporter's own tag of that name
					k := rapid.SampledFrom([]string{"bucket", "bucketid", "le", "bid"}).Draw(t, "bucketTag")
					if op.Tags == nil {
						op.Tags = pbt.M{}
					}
					op.Tags[pbt.S(k)] = rapid.OneOf(tagStr(), rapid.Just(pbt.S("0003")), rapid.Just(pbt.S("user-uploads"))).Draw(t, "bucketTagValue")
				}
				op.I = pbt.AnyInt64().Draw(t, "i")
				op.F = pbt.AnyFloat().Draw(t, "f")
				op.NB = rapid.IntRange(0, 6).Draw(t, "nb")
				op.Coll = rapid.IntRange(0, 3).Draw(t, "coll") == 0
				op.B = rapid.IntRange(0, 6).Draw(t, "b")
				op.Rep = rapid.SampledFrom([]int{0, 0, 1, 3, 20}).Draw(t, "rep")
				if c.MaxPacket > 0 && c.MaxPacket <= 4000 && rapid.IntRange(0, 15).Draw(t, "pad?") == 0 {
					op.Pad = int(c.MaxPacket) + rapid.IntRange(0, 600).Draw(t, "pad")
					op.Rep = rapid.IntRange(0, 2).Draw(t, "padrep")
				}
			}
			ops = append(ops, op)
		}
		c.Producers = append(c.Producers, ops)
	}
	if rapid.IntRange(0, 7).Draw(t, "other?") == 0 {
		c.OtherMS = rapid.IntRange(3, 40).Draw(t, "otherMS")
	}
	if rapid.IntRange(0, 3).Draw(t, "dead?") == 0 {
		c.Dead = rapid.IntRange(1, 4).Draw(t, "dead")
	}
	if np >= 2 && (rapid.IntRange(0, 5).Draw(t, "shared") == 0 || (c.MaxPacket == 0 || c.MaxPacket == 65000) && rapid.Bool().Draw(t, "sharedBig")) {
		c.SharedBurst = rapid.SampledFrom([]int{50, 500, 3000}).Draw(t, "sharedBurst")
	}
	if rapid.IntRange(0, 3).Draw(t, "wide?") == 0 {
		c.Wide = rapid.SampledFrom([]int{2, 5, 9, 10, 40, 99, 100, 998, 999, 1000, 1001, 9998, 9999, 10000, 10001, 12000}).Draw(t, "wide")
		c.WideDur = rapid.Bool().Draw(t, "wideDur")
		c.WideIdx = []int{0, 1, c.Wide - 1, c.Wide}
		for _, x := range []int{9, 10, 11, 99, 100, 101, 999, 1000, 1001, 9999, 10000, 10001} {
			if x <= c.Wide {
				c.WideIdx = append(c.WideIdx, x)
			}
		}
		c.WideIdx = append(c.WideIdx, rapid.SliceOfN(rapid.IntRange(0, c.Wide), 0, 4).Draw(t, "wideIdx")...)
	}
	return c
}

type reported struct {
	canon string
	ret   int64 // wall clock (ns) after the report call returned
	hist  string
	bidx  int
	spec  string // histogram buckets: the specification the bucket belongs to (key of the reference)
}

func run(c Case) (pbt.Outcome, error) {
	var errs pbt.Errs
	var out pbt.Outcome
	var sinks []*udpsink.Sink
	var addrs []string
	for i := 0; i < c.Dests; i++ {
		s, err := udpsink.New()
		if err != nil {
			return out, fmt.Errorf("harness: %v", err)
		}
		defer s.Close()
		sinks = append(sinks, s)
		addrs = append(addrs, s.Addr)
	}
	judged := len(sinks) // every live destination is judged, wherever the dead one sits in the list
	deadPos := -1
	if c.Dead > 0 {
		d, err := udpsink.New()
		if err != nil {
			return out, fmt.Errorf("harness: %v", err)
		}
		deadAddr := d.Addr
		d.Close()
		pos := (c.Dead - 1) % (len(sinks) + 1)
		addrs = append(addrs[:pos:pos], append([]string{deadAddr}, addrs[pos:]...)...)
		deadPos = pos
	}
	var mu sync.Mutex
	batches := 0
	m3.VerifSetHooks(&m3.VerifHooks{NoteBatch: func(mets []m3thrift.Metric, ct []m3thrift.MetricTag, f, o int32) {
		mu.Lock()
		batches++
		mu.Unlock()
	}})
	defer m3.VerifSetHooks(nil)
	proto := m3.Compact
	if c.Binary {
		proto = m3.Binary
	}
	idName, bucketName := "bucketid", "bucket"
	if c.IDName != "" {
		idName, bucketName = c.IDName, c.BucketName
	}
	if c.OtherMS > 0 {
		osink, err := udpsink.New()
		if err != nil {
			return out, fmt.Errorf("harness: %v", err)
		}
		defer osink.Close()
		oproto := proto
		if c.OtherMS%2 == 1 { // the other reporter speaks the other wire protocol
			oproto = m3.Compact
			if !c.Binary {
				oproto = m3.Binary
			}
		}
		other, err := m3.NewReporter(m3.Options{HostPorts: []string{osink.Addr}, Service: "other", Env: "test", Protocol: oproto})
		if err != nil {
			return out, fmt.Errorf("harness: NewReporter (other): %v", err)
		}
		defer other.Close()
		other.AllocateCounter("other", nil).ReportCount(1)
		time.Sleep(time.Duration(c.OtherMS) * time.Millisecond)
	}
	tConstructed := time.Now().UnixNano()
	var r m3.Reporter
	var err error
	if c.ViaConfig > 0 && !c.Binary && c.IDName == "" {
		cfg := m3.Configuration{HostPorts: addrs, Service: "svc", Env: "test", CommonTags: c.Common.Std(), Queue: c.Queue, PacketSize: c.MaxPacket}
		if c.ViaConfig == 1 {
			cfg.HostPort = addrs[0]
		}
		r, err = cfg.NewReporter()
		out.Classes = append(out.Classes, "built-from-configuration")
	} else {
		commonOpt := c.Common.Std()
		if c.IncludeHost > 0 {
			if commonOpt == nil {
				commonOpt = map[string]string{}
			}
			switch c.IncludeHost {
			case 2:
				commonOpt["host"] = "custom-host"
			case 3:
				commonOpt["host"] = ""
			default:
				delete(commonOpt, "host")
			}
		}
		r, err = m3.NewReporter(m3.Options{HostPorts: addrs, Service: "svc", Env: "test", CommonTags: commonOpt, IncludeHost: c.IncludeHost > 0, Protocol: proto, HistogramBucketTagPrecision: c.Precision,
			MaxQueueSize: c.Queue, MaxPacketSizeBytes: c.MaxPacket, HistogramBucketIDName: c.IDName, HistogramBucketName: c.BucketName})
	}
	if err != nil {
		return out, fmt.Errorf("NewReporter: %v", err)
	}
	var wantMu sync.Mutex
	var want []reported
	usedSpecs := map[string]tally.Buckets{} // specification key -> specification (for the references)
	noteSpec := func(k string, b tally.Buckets) {
		wantMu.Lock()
		usedSpecs[k] = b
		wantMu.Unlock()
	}
	tagsets := map[string]bool{}
	var wg sync.WaitGroup
	var sharedC tally.CachedCount
	var sharedG tally.CachedGauge
	var sharedT tally.CachedTimer
	if c.SharedBurst > 0 {
		sharedC = r.AllocateCounter("shared-c", map[string]string{"s": "1"})
		sharedG = r.AllocateGauge("shared-g", nil)
		sharedT = r.AllocateTimer("shared-t", nil)
	}
	start := make(chan struct{})
	for pi, ops := range c.Producers {
		pi, ops := pi, ops
		wg.Add(1)
		go func() {
			defer wg.Done()
			<-start
			if c.SharedBurst > 0 {
				local := make([]reported, 0, 3*c.SharedBurst)
				for k := 0; k < c.SharedBurst; k++ {
					v := int64(pi)*10000000 + int64(k) + 1
					sharedC.ReportCount(v)
					sharedG.ReportGauge(float64(v))
					sharedT.ReportTimer(time.Duration(v))
					ret := time.Now().UnixNano()
					local = append(local,
						reported{canon: m3h.Canon(m3thrift.Metric{Name: "shared-c", Tags: []m3thrift.MetricTag{{Name: "s", Value: "1"}}, Value: m3thrift.MetricValue{MetricType: m3thrift.MetricType_COUNTER, Count: v}}), ret: ret},
						reported{canon: m3h.Canon(m3thrift.Metric{Name: "shared-g", Value: m3thrift.MetricValue{MetricType: m3thrift.MetricType_GAUGE, Gauge: float64(v)}}), ret: ret},
						reported{canon: m3h.Canon(m3thrift.Metric{Name: "shared-t", Value: m3thrift.MetricValue{MetricType: m3thrift.MetricType_TIMER, Timer: v}}), ret: ret})
				}
				wantMu.Lock()
				want = append(want, local...)
				wantMu.Unlock()
			}
			for oi, op := range ops {
				if op.K == "flush" {
					r.Flush()
					continue
				}
				name := string(op.Name)
				if op.Pad > len(name) {
					name += strings.Repeat("x", op.Pad-len(name))
				}
				tags := op.Tags.Std()
				exp := m3thrift.Metric{Name: name}
				for k, v := range tags {
					exp.Tags = append(exp.Tags, m3thrift.MetricTag{Name: k, Value: v})
				}
				var do func(k int)
				hist := ""
				bidx := 0
				specKey := ""
				switch op.K {
				case "counter":
					h := r.AllocateCounter(name, tags)
					exp.Value.MetricType = m3thrift.MetricType_COUNTER
					do = func(k int) { exp.Value.Count = op.I + int64(k); h.ReportCount(exp.Value.Count) }
				case "gauge":
					h := r.AllocateGauge(name, tags)
					exp.Value.MetricType = m3thrift.MetricType_GAUGE
					do = func(k int) {
						exp.Value.Gauge = op.F.V()
						if k > 0 {
							exp.Value.Gauge = float64(k)
						}
						h.ReportGauge(exp.Value.Gauge)
					}
				case "timer":
					h := r.AllocateTimer(name, tags)
					exp.Value.MetricType = m3thrift.MetricType_TIMER
					do = func(k int) { exp.Value.Timer = op.I - int64(k); h.ReportTimer(time.Duration(exp.Value.Timer)) }
				case "vhist":
					spec := make(tally.ValueBuckets, op.NB)
					for j := range spec {
						spec[j] = float64(j)*2.5 - 3
					}
					if op.Coll {
						for _, comp := range collide.Companions(spec) {
							if vb, ok := comp.(tally.ValueBuckets); ok && len(vb) > 0 {
								_ = r.AllocateHistogram("collbase", nil, spec)
								spec = vb
								break
							}
						}
					}
					h := r.AllocateHistogram(name, tags, spec)
					pairs := tally.BucketPairs(spec)
					bidx = op.B % len(pairs)
					specKey = specKeyOf(spec)
					noteSpec(specKey, spec)
					b := h.ValueBucket(pairs[bidx].LowerBoundValue(), pairs[bidx].UpperBoundValue())
					exp.Value.MetricType = m3thrift.MetricType_COUNTER
					hist = fmt.Sprintf("p%d.o%d", pi, oi)
					do = func(k int) { exp.Value.Count = op.I + int64(k); b.ReportSamples(exp.Value.Count) }
				case "dhist":
					spec := make(tally.DurationBuckets, op.NB)
					for j := range spec {
						spec[j] = time.Duration(j)*time.Millisecond - time.Millisecond
					}
					if op.Coll {
						for _, comp := range collide.Companions(spec) {
							if db, ok := comp.(tally.DurationBuckets); ok && len(db) > 0 {
								_ = r.AllocateHistogram("collbase", nil, spec)
								spec = db
								break
							}
						}
					}
					h := r.AllocateHistogram(name, tags, spec)
					pairs := tally.BucketPairs(spec)
					bidx = op.B % len(pairs)
					specKey = specKeyOf(spec)
					noteSpec(specKey, spec)
					b := h.DurationBucket(pairs[bidx].LowerBoundDuration(), pairs[bidx].UpperBoundDuration())
					exp.Value.MetricType = m3thrift.MetricType_COUNTER
					hist = fmt.Sprintf("p%d.o%d", pi, oi)
					do = func(k int) { exp.Value.Count = op.I + int64(k); b.ReportSamples(exp.Value.Count) }
				}
				for k := 0; k <= op.Rep; k++ {
					do(k)
					ret := time.Now().UnixNano()
					e := exp
					if hist != "" {
						e.Name = "HIST:" + e.Name
					}
					wantMu.Lock()
					want = append(want, reported{canon: m3h.Canon(e), ret: ret, hist: hist, bidx: bidx, spec: specKey})
					tagsets[fmt.Sprint(len(tags), m3h.Canon(m3thrift.Metric{Tags: exp.Tags}))] = true
					wantMu.Unlock()
				}
			}
		}()
	}
	close(start)
	wg.Wait()
	wideCount := map[int64]bool{}
	if c.Wide > 0 {
		wtags := map[string]string{"w": "1"}
		var pairs []tally.BucketPair
		var h tally.CachedHistogram
		if c.WideDur {
			spec := make(tally.DurationBuckets, c.Wide)
			for j := range spec {
				spec[j] = time.Duration(j) * time.Millisecond
			}
			h, pairs = r.AllocateHistogram("wide-h", wtags, spec), tally.BucketPairs(spec)
		} else {
			spec := make(tally.ValueBuckets, c.Wide)
			for j := range spec {
				spec[j] = float64(j)
			}
			h, pairs = r.AllocateHistogram("wide-h", wtags, spec), tally.BucketPairs(spec)
		}
		for _, x := range c.WideIdx {
			i := ((x % len(pairs)) + len(pairs)) % len(pairs)
			if wideCount[int64(i)+1] {
				continue
			}
			wideCount[int64(i)+1] = true
			if c.WideDur {
				h.DurationBucket(pairs[i].LowerBoundDuration(), pairs[i].UpperBoundDuration()).ReportSamples(int64(i) + 1)
			} else {
				h.ValueBucket(pairs[i].LowerBoundValue(), pairs[i].UpperBoundValue()).ReportSamples(int64(i) + 1)
			}
			e := m3thrift.Metric{Name: "HIST:wide-h", Tags: []m3thrift.MetricTag{{Name: "w", Value: "1"}}, Value: m3thrift.MetricValue{MetricType: m3thrift.MetricType_COUNTER, Count: int64(i) + 1}}
			want = append(want, reported{canon: m3h.Canon(e), ret: time.Now().UnixNano()})
		}
	}
	if err := r.Close(); err != nil {
		errs.Addf("Close returned %v", err)
	}
	mu.Lock()
	nb := batches
	mu.Unlock()

	wantCount := map[string]int{}
	latest := map[string]int64{}
	for _, w := range want {
		wantCount[w.canon]++
		if w.ret > latest[w.canon] {
			latest[w.canon] = w.ret
		}
	}
	// bucket tags of ordinary histograms: a histogram's bucket ids and ranges do not depend on which
	// other histograms the reporter has seen. For every specification used, a reference reporter of
	// its own (same protocol, tag names and precision) with that ONE histogram tells what they are.
	type idRange struct{ id, rng string }
	type bucketOf struct {
		spec string
		bidx int
	}
	bucketWant := map[string][]bucketOf{}
	for _, w := range want {
		if w.spec != "" {
			bucketWant[w.canon] = append(bucketWant[w.canon], bucketOf{w.spec, w.bidx})
		}
	}
	refs := map[string]map[int]idRange{}
	for key, spec := range usedSpecs {
		ref, rerr := referenceBucketTags(c, proto, spec)
		if rerr != nil {
			return out, fmt.Errorf("harness: reference reporter: %v", rerr)
		}
		out0 := map[int]idRange{}
		for i, p := range ref {
			out0[i] = idRange{p[0], p[1]}
		}
		refs[key] = out0
	}
	commonWant := map[string]string{"service": "svc", "env": "test"}
	for k, v := range c.Common {
		commonWant[string(k)] = string(v)
	}
	if c.IncludeHost > 0 && c.ViaConfig == 0 {
		hn, _ := os.Hostname()
		commonWant["host"] = hn
		if c.IncludeHost == 2 {
			commonWant["host"] = "custom-host"
		}
		out.Classes = append(out.Classes, "include-host")
	}
	for si, s := range sinks[:judged] {
		if !s.WaitAll(nb) {
			errs.Addf("destination %d: Close returned after %d batches were emitted but only %d datagrams arrived within 30s", si, nb, s.Count())
		}
		gotCount := map[string]int{}
		tagMsgs := 0
		type bucketSeen struct{ id, rng string }
		wideIDs := map[int64]string{} // samples (= bucket index + 1) -> bucket id tag value
		wideRanges := map[int64]string{}
		for gi, d := range s.Datagrams() {
			_, batch, err := m3h.Decode(c.Binary, d)
			if err != nil {
				errs.Addf("destination %d datagram %d does not decode as exactly one one-way message: %v", si, gi, err)
				continue
			}
			gotCommon := map[string]string{}
			for _, tg := range batch.CommonTags {
				if _, dup := gotCommon[tg.Name]; dup {
					errs.Addf("destination %d datagram %d carries the common tag %q twice: %v", si, gi, tg.Name, batch.CommonTags)
				}
				gotCommon[tg.Name] = tg.Value
			}
			if fmt.Sprint(gotCommon) != fmt.Sprint(commonWant) {
				errs.Addf("destination %d datagram %d carries common tags %v, configured %v", si, gi, gotCommon, commonWant)
			}
			for _, m := range batch.Metrics {
				if m3h.IsInternal(m.Name) {
					continue
				}
				// a bucket metric carries the histogram's own tags plus the two bucket tags. The
				// histogram's own tags may use the very same names (a tag called "bucket" is ordinary
				// user data), so which of equally named tags are the reporter's is decided by matching:
				// one tag of each bucket-tag name is taken out such that what remains is a reported
				// histogram, if there is such a choice.
				var ids, rngs []int
				ca, cb := -1, -1 // which tags were taken to be the reporter's bucket id and bucket range
				for ti, tg := range m.Tags {
					switch tg.Name {
					case idName:
						ids = append(ids, ti)
					case bucketName:
						rngs = append(rngs, ti)
					}
				}
				cm := m
				if plain := m3h.Canon(m); (len(ids) > 0 || len(rngs) > 0) && gotCount[plain] >= wantCount[plain] {
					// (not a reported counter/gauge/timer that merely has a tag of such a name)
					cm.Name = "HIST:" + m.Name
					if len(ids) == 0 || len(rngs) == 0 {
						errs.Addf("histogram bucket metric %q lacks one of its bucket tags: %v", m.Name, m.Tags)
					}
					without := func(a, b int) []m3thrift.MetricTag {
						var rest []m3thrift.MetricTag
						for ti, tg := range m.Tags {
							if ti != a && ti != b {
								rest = append(rest, tg)
							}
						}
						return rest
					}
					if len(ids) == 0 {
						ids = []int{-1}
					}
					if len(rngs) == 0 {
						rngs = []int{-1}
					}
					cm.Tags = without(ids[0], rngs[0])
					ca, cb = ids[0], rngs[0]
					found := false
					for _, a := range ids {
						for _, b := range rngs {
							if found || a < 0 || b < 0 {
								continue
							}
							if _, err := strconv.Atoi(m.Tags[a].Value); err != nil {
								continue // a bucket id is a number
							}
							try := cm
							try.Tags = without(a, b)
							if k := m3h.Canon(try); gotCount[k] < wantCount[k] {
								cm.Tags = try.Tags
								ca, cb = a, b
								found = true
							}
						}
					}
					if !found && ids[0] >= 0 {
						if _, err := strconv.Atoi(m.Tags[ids[0]].Value); err != nil && len(ids) == 1 {
							errs.Addf("bucket id %q of %q is not a number", m.Tags[ids[0]].Value, m.Name)
						}
					}
				}
				if m.Name == "wide-h" && c.Wide > 0 && wideCount[m.Value.Count] {
					for _, tg := range m.Tags {
						if tg.Name == idName {
							wideIDs[m.Value.Count] = tg.Value
						}
						if tg.Name == bucketName {
							wideRanges[m.Value.Count] = tg.Value
						}
					}
				}
				canon := m3h.Canon(cm)
				gotCount[canon]++
				if cands := bucketWant[canon]; len(cands) > 0 && ca >= 0 && cb >= 0 {
					ok := false
					var wantPairs []idRange
					for _, cd := range cands {
						if r, have := refs[cd.spec][cd.bidx]; have {
							wantPairs = append(wantPairs, r)
							if r.id == m.Tags[ca].Value && r.rng == m.Tags[cb].Value {
								ok = true
							}
						}
					}
					if !ok && len(wantPairs) > 0 && tagMsgs < 3 {
						tagMsgs++
						errs.Addf("destination %d: bucket metric %q carries bucket id %q and range %q; a reporter that has only this histogram gives that bucket %v (the tags of a histogram's buckets do not depend on the other histograms of the reporter)", si, m.Name, m.Tags[ca].Value, m.Tags[cb].Value, wantPairs)
					}
				}
				if _, ok := wantCount[canon]; ok {
					if m.Timestamp < tConstructed-int64(time.Millisecond) {
						errs.Addf("metric %q has timestamp %d, earlier than the reporter's construction at %d", m.Name, m.Timestamp, tConstructed)
					}
					if m.Timestamp > latest[canon]+int64(time.Millisecond) {
						errs.Addf("metric %q has timestamp %d, later than the return of its report call at %d", m.Name, m.Timestamp, latest[canon])
					}
				}
			}
		}
		if len(wideIDs) > 0 {
			var idx []int64
			for k := range wideIDs {
				idx = append(idx, k)
			}
			sort.Slice(idx, func(a, b int) bool { return idx[a] < idx[b] })
			for j := 1; j < len(idx); j++ {
				lo, hi := wideIDs[idx[j-1]], wideIDs[idx[j]]
				nlo, err1 := strconv.Atoi(lo)
				nhi, err2 := strconv.Atoi(hi)
				if err1 != nil || err2 != nil {
					continue // reported above
				}
				if !(lo < hi) || !(nlo < nhi) {
					errs.Addf("destination %d: histogram with %d bounds: bucket %d has id %q and the higher bucket %d has id %q: the ids do not increase with the bounds (as strings and as numbers)", si, c.Wide, idx[j-1]-1, lo, idx[j]-1, hi)
					break
				}
			}
		}
		seenRange := map[string]int64{}
		for k, v := range wideRanges {
			if o, dup := seenRange[v]; dup {
				errs.Addf("destination %d: histogram with %d bounds: buckets %d and %d carry the same bucket-range tag %q", si, c.Wide, o-1, k-1, v)
				break
			}
			seenRange[v] = k
		}
		var keys []string
		for k := range wantCount {
			keys = append(keys, k)
		}
		for k := range gotCount {
			if _, ok := wantCount[k]; !ok {
				keys = append(keys, k)
			}
		}
		sort.Strings(keys)
		for _, k := range keys {
			if gotCount[k] != wantCount[k] {
				errs.Addf("destination %d: metric %.300s reported %d times, decoded %d times", si, k, wantCount[k], gotCount[k])
			}
		}
	}
	out.NonTrivial = len(tagsets) >= 2 && nb >= 2
	out.Classes = append(out.Classes, fmt.Sprintf("dests=%d", c.Dests), fmt.Sprintf("producers=%d", len(c.Producers)))
	if c.SharedBurst > 0 {
		out.Classes = append(out.Classes, "shared-handles")
	}
	if c.Dead > 0 {
		out.Classes = append(out.Classes, fmt.Sprintf("dead-destination-after-%d-live", deadPos))
	}
	if c.OtherMS > 0 {
		out.Classes = append(out.Classes, "another-reporter-open")
	}
	if c.Wide > 0 {
		out.Classes = append(out.Classes, fmt.Sprintf("wide-histogram-digits=%d", len(fmt.Sprint(c.Wide))))
	}
	if math.IsNaN(0) {
		out.Classes = nil
	}
	return out, errs.Err()
}

func TestC13(t *testing.T) {
	pbt.Main(t, pbt.Prop[Case]{
		ID: "C13", Name: "delivery",
		Rule: "rapid-generated M3 reporter configurations (Compact/Binary, 1..3 real loopback destinations - in a quarter of the cases with an additional unreachable destination somewhere in the host list (sends to it fail), which must not disturb the live ones -, queue size 1..4096, common tags, packet size, default or custom bucket tag names) and 1..4 producer goroutines (real threads) started right after NewReporter, each a history of 1..12 Allocate*+Report*/Flush ops (and, in a sixth of the cases, bursts of 50..3000 distinct values per producer through ONE counter, gauge and timer handle shared by all producers) with arbitrary byte-string names, tag keys/values drawn from an alphabet rich in '=' (so that different tag maps have equal 'k=v' strings), full-range int64/float64 values, occasionally a name longer than MaxPacketSizeBytes (such a metric must still be delivered exactly once), histogram buckets of strictly increasing specs (in a quarter of the histograms a different specification with the same identity in the library's bucket caches, allocated after a histogram with the plain one), repeats; in a quarter of the cases one more value or duration histogram with 2..12000 bounds (sizes around the powers of ten) whose first, last and power-of-ten-neighbouring buckets each get index+1 samples; then Close. Oracle per destination: every datagram decodes as exactly one well-formed one-way message with the configured common tags (service and env included); the multiset of decoded non-internal metrics (name, kind, value bits, tag set, bucket tags present) equals the multiset reported; timestamps within [construction, return of the report call] (+1ms); every bucket metric of an ordinary histogram carries the bucket id and range that a reporter with only that histogram gives the bucket; the bucket ids of the wide histogram increase with the bucket index, compared as strings and as numbers, and its buckets carry pairwise different bucket-range tags; Close returned only after every emitted batch had been sent (all datagrams present). Non-trivial: >=2 distinct tag sets and >=2 datagrams. Distinct: FNV-64 of the case JSON.",
		Gen:  gen, Run: run, HangAfter: 90 * time.Second,
	})
}

// specKeyOf identifies a bucket specification by kind and bit patterns.
func specKeyOf(b tally.Buckets) string {
	switch v := b.(type) {
	case tally.ValueBuckets:
		k := "v"
		for _, f := range v {
			k += fmt.Sprintf(":%016x", math.Float64bits(f))
		}
		return k
	case tally.DurationBuckets:
		k := "d"
		for _, d := range v {
			k += fmt.Sprintf(":%d", int64(d))
		}
		return k
	}
	return fmt.Sprintf("%T:%v", b, b)
}

// referenceBucketTags builds a reporter of its own with ONE histogram of the given specification,
// reports index+1 samples on every bucket and returns, per bucket index, the bucket id and bucket
// range tag values it was sent with.
func referenceBucketTags(c Case, proto m3.Protocol, spec tally.Buckets) (map[int][2]string, error) {
	sink, err := udpsink.New()
	if err != nil {
		return nil, err
	}
	defer sink.Close()
	idName, bucketName := "bucketid", "bucket"
	opts := m3.Options{HostPorts: []string{sink.Addr}, Service: "ref", Env: "test", Protocol: proto, MaxQueueSize: 4096, MaxPacketSizeBytes: 65000}
	if c.ViaConfig == 0 {
		opts.HistogramBucketTagPrecision = c.Precision
		if c.IDName != "" {
			idName, bucketName = c.IDName, c.BucketName
			opts.HistogramBucketIDName, opts.HistogramBucketName = c.IDName, c.BucketName
		}
	}
	r, err := m3.NewReporter(opts)
	if err != nil {
		return nil, err
	}
	h := r.AllocateHistogram("ref", nil, spec)
	pairs := tally.BucketPairs(spec)
	_, isDur := spec.(tally.DurationBuckets)
	for i, p := range pairs {
		if isDur {
			h.DurationBucket(p.LowerBoundDuration(), p.UpperBoundDuration()).ReportSamples(int64(i) + 1)
		} else {
			h.ValueBucket(p.LowerBoundValue(), p.UpperBoundValue()).ReportSamples(int64(i) + 1)
		}
	}
	if err := r.Close(); err != nil {
		return nil, err
	}
	out := map[int][2]string{}
	deadline := time.Now().Add(30 * time.Second)
	for len(out) < len(pairs) && time.Now().Before(deadline) {
		for _, d := range sink.Datagrams() {
			_, batch, derr := m3h.Decode(proto == m3.Binary, d)
			if derr != nil {
				return nil, derr
			}
			for _, m := range batch.Metrics {
				if m.Name != "ref" {
					continue
				}
				var pr [2]string
				for _, tg := range m.Tags {
					switch tg.Name {
					case idName:
						pr[0] = tg.Value
					case bucketName:
						pr[1] = tg.Value
					}
				}
				out[int(m.Value.Count)-1] = pr
			}
		}
		if len(out) < len(pairs) {
			time.Sleep(200 * time.Microsecond)
		}
	}
	if len(out) < len(pairs) {
		return nil, fmt.Errorf("only %d of %d reference buckets arrived", len(out), len(pairs))
	}
	return out, nil
}

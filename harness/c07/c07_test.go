// C07: closing a subscope loses nothing recorded before it and harms no other scope.
package c07

import (
	"fmt"
	"strings"
	"sync"
	"sync/atomic"
	"testing"

	tally "github.com/uber-go/tally/v4"
	"pgregory.net/rapid"

	"verifharness/internal/pbt"
	"verifharness/internal/rec"
	"verifharness/internal/sched"
	"verifharness/internal/sgen"
)

type AppOp struct {
	K string `json:"k"` // obtain inc close child
	I int    `json:"i"` // identity
	D int64  `json:"d,omitempty"`
	A bool   `json:"a,omitempty"` // obtain through the alias spelling (raw tags that sanitize to the same identity)
}

type Case struct {
	Cached bool `json:"cached"`
	Shards uint `json:"shards"`
	NIdent int  `json:"nident"`
	// Sanitize: the root has a sanitizer and every identity is a tagged scope that can be requested
	// through two raw spellings ("v_0" and "v.0") that sanitize to the same tag value
	Sanitize bool `json:"sanitize,omitempty"`
	// Wide (with Sanitize): the alias spelling differs from the canonical one in a two-byte rune
	// ("v\u00e90" for "v_0"), so the raw key is longer than the canonical key, and the identities'
	// canonical values are each other's extensions by one byte ("v_0", "v_00", "v_000")
	Wide   bool      `json:"wide,omitempty"`
	Apps   [][]AppOp `json:"apps"`
	Passes []int     `json:"passes"`
	Sched  []int     `json:"sched"`
}

func gen(t *rapid.T) Case {
	c := Case{Cached: rapid.Bool().Draw(t, "cached"), Shards: uint(rapid.SampledFrom([]int{1, 1, 2, 4}).Draw(t, "shards")), NIdent: rapid.IntRange(1, 3).Draw(t, "nident")}
	c.Sanitize = rapid.IntRange(0, 3).Draw(t, "sanitize") == 0
	c.Wide = c.Sanitize && rapid.Bool().Draw(t, "wide")
	na := rapid.IntRange(1, 3).Draw(t, "napps")
	for a := 0; a < na; a++ {
		n := rapid.IntRange(2, 8).Draw(t, "nops")
		var ops []AppOp
		for i := 0; i < n; i++ {
			op := AppOp{K: rapid.SampledFrom([]string{"obtain", "obtain", "inc", "inc", "inc", "close", "close", "child", "same"}).Draw(t, "k"), I: rapid.IntRange(0, c.NIdent-1).Draw(t, "i")}
			if op.K == "inc" || op.K == "child" || op.K == "same" {
				op.D = int64(rapid.IntRange(1, 9).Draw(t, "d"))
			}
			if op.K == "obtain" && c.Sanitize {
				op.A = rapid.Bool().Draw(t, "alias")
			}
			ops = append(ops, op)
		}
		c.Apps = append(c.Apps, ops)
	}
	np := rapid.IntRange(1, 2).Draw(t, "ntickers")
	for i := 0; i < np; i++ {
		c.Passes = append(c.Passes, rapid.IntRange(1, 3).Draw(t, "npasses"))
	}
	c.Sched = sgen.Choices(t, 200, na+np)
	return c
}

func deriveSan(root tally.Scope, i int, alias, wide bool) tally.Scope {
	if wide {
		v := "v_0"
		if alias {
			v = "v\u00e90"
		}
		return root.Tagged(map[string]string{"t": v + strings.Repeat("0", i)})
	}
	if alias {
		return root.Tagged(map[string]string{"t": fmt.Sprintf("v%d.0", i)})
	}
	return root.Tagged(map[string]string{"t": fmt.Sprintf("v%d_0", i)})
}

func identSan(i int, child, wide bool) string {
	name := "c"
	if child {
		name = "child.c"
	}
	if wide {
		return rec.ID(name, map[string]string{"t": "v_0" + strings.Repeat("0", i)})
	}
	return rec.ID(name, map[string]string{"t": fmt.Sprintf("v%d_0", i)})
}

func derive(root tally.Scope, i int) tally.Scope {
	switch i {
	case 1:
		return root.Tagged(map[string]string{"t": "1"})
	default:
		return root.SubScope(fmt.Sprintf("s%d", i))
	}
}

func ident(i int, child bool) string {
	name := "c"
	if child {
		name = "child.c"
	}
	switch i {
	case 1:
		return rec.ID(name, map[string]string{"t": "1"})
	default:
		return rec.ID(fmt.Sprintf("s%d.%s", i, name), map[string]string{})
	}
}

type handle struct {
	s      tally.Scope
	closed atomic.Bool // set by the harness right before Close is called on this scope object
	// closeReturned is the global sequence number taken right after a Close call on this scope
	// object returned (0: none has returned yet)
	closeReturned atomic.Int64
}

func run(c Case) (pbt.Outcome, error) {
	var errs pbt.Errs
	var out pbt.Outcome
	log := &rec.Log{}
	opts := tally.ScopeOptions{OmitCardinalityMetrics: true}
	if c.Cached {
		opts.CachedReporter = &rec.Cached{L: log}
	} else {
		opts.Reporter = &rec.Stats{L: log}
	}
	if c.Sanitize {
		opts.SanitizeOptions = &tally.SanitizeOptions{
			NameCharacters:       tally.ValidCharacters{Ranges: tally.AlphanumericRange, Characters: tally.UnderscoreDashDotCharacters},
			KeyCharacters:        tally.ValidCharacters{Ranges: tally.AlphanumericRange, Characters: tally.UnderscoreCharacters},
			ValueCharacters:      tally.ValidCharacters{Ranges: tally.AlphanumericRange, Characters: tally.UnderscoreCharacters},
			ReplacementCharacter: '_',
		}
	}
	root, _ := tally.VerifNewRootScope(opts, 0, c.Shards)
	get := func(i int, alias bool) tally.Scope {
		if c.Sanitize {
			return deriveSan(root, i, alias, c.Wide)
		}
		return derive(root, i)
	}
	id := func(i int, child bool) string {
		if c.Sanitize {
			return identSan(i, child, c.Wide)
		}
		return ident(i, child)
	}

	var mu sync.Mutex
	handles := map[tally.Scope]*handle{} // one record per scope object ever returned
	slots := make([]*handle, c.NIdent)   // shared "current handle" per identity
	spelling := make([]bool, c.NIdent)   // raw spelling used by the last obtain (requests are sharded by raw key)
	lower := map[string]int64{}
	upper := map[string]int64{}
	lookup := func(s tally.Scope) *handle {
		mu.Lock()
		defer mu.Unlock()
		h := handles[s]
		if h == nil {
			h = &handle{s: s}
			handles[s] = h
		}
		return h
	}
	account := func(id string, d int64, sure bool) {
		mu.Lock()
		upper[id] += d
		if sure {
			lower[id] += d
		}
		mu.Unlock()
	}
	reacquired := false
	var seq atomic.Int64

	s := sched.New(c.Sched)
	log.OnCall = s.Yield
	tally.VerifSetHooks(&tally.VerifHooks{Yield: s.Yield, Lock: s.Lock})
	defer tally.VerifSetHooks(nil)

	for ai, ops := range c.Apps {
		ops := ops
		s.Go(fmt.Sprintf("app%d", ai), func() {
			for _, op := range ops {
				switch op.K {
				case "obtain":
					start := seq.Add(1)
					sc := get(op.I, op.A)
					h := lookup(sc)
					if cr := h.closeReturned.Load(); cr != 0 && cr < start {
						mu.Lock()
						errs.Addf("identity %d: the request returned a scope object on which Close had already returned before the request started (a scope obtained after a Close must be fully functional)", op.I)
						mu.Unlock()
					}
					mu.Lock()
					if slots[op.I] != nil && slots[op.I] != h {
						reacquired = true
					}
					slots[op.I] = h
					spelling[op.I] = op.A
					mu.Unlock()
				case "inc":
					mu.Lock()
					h := slots[op.I]
					mu.Unlock()
					if h == nil {
						continue
					}
					h.s.Counter("c").Inc(op.D)
					// delivered for sure only if Close had not been called on this object when Inc returned
					account(id(op.I, false), op.D, !h.closed.Load())
				case "close":
					mu.Lock()
					h := slots[op.I]
					mu.Unlock()
					if h == nil {
						continue
					}
					h.closed.Store(true)
					if err := h.s.(interface{ Close() error }).Close(); err != nil {
						mu.Lock()
						errs.Addf("subscope Close returned %v", err)
						mu.Unlock()
					}
					h.closeReturned.CompareAndSwap(0, seq.Add(1))
				case "same":
					// a derivation that adds nothing - Tagged(nil) / Tagged({}) - names the scope itself while
					// it is live; derived from a closed scope it is inert like every other derivation
					mu.Lock()
					h := slots[op.I]
					mu.Unlock()
					if h == nil {
						continue
					}
					// inert only if Close had RETURNED on the object before the derivation started (the flag
					// "closed" is raised by the harness right before it calls Close: between the two the
					// scope is still live)
					closedAtStart := h.closeReturned.Load() != 0
					var d tally.Scope
					if op.D%2 == 0 {
						d = h.s.Tagged(nil)
					} else {
						d = h.s.Tagged(map[string]string{})
					}
					d.Counter("c").Inc(op.D)
					if !closedAtStart {
						// what came back is a registered scope of this identity - h.s itself, another live
						// object of the identity (alias spellings may live in another shard) or a new one;
						// the increment is delivered for sure only if Close had not been called on THAT
						// object (nor on the one it was derived from) when Inc returned
						account(id(op.I, false), op.D, !lookup(d).closed.Load() && !h.closed.Load())
					}
				case "child":
					mu.Lock()
					h := slots[op.I]
					mu.Unlock()
					if h == nil {
						continue
					}
					closedAtStart := h.closeReturned.Load() != 0 // see "same": Close has returned, not merely been announced
					ch := h.s.SubScope("child")
					closedAtEnd := h.closed.Load()
					ch.Counter("c").Inc(op.D)
					switch {
					case closedAtStart:
						// inert: must deliver nothing (neither bound moves)
					case !closedAtEnd:
						account(id(op.I, true), op.D, true)
					default:
						account(id(op.I, true), op.D, false)
					}
				}
				s.Yield("harness:after-op")
			}
		})
	}
	for ti, n := range c.Passes {
		n := n
		s.Go(fmt.Sprintf("ticker%d", ti), func() {
			for p := 0; p < n; p++ {
				tally.VerifReportLoopRun(root)
				s.Yield("harness:after-pass")
			}
		})
	}
	res := s.Run()
	tally.VerifSetHooks(nil)
	log.OnCall = nil
	for _, p := range res.Panics {
		errs.Addf("panic in thread %s: %s\n%s", p.Thread, p.Value, p.Stack)
	}
	if res.Deadlock || res.Hang || res.StepLimit {
		if res.Hang {
			errs.Poison() // a thread is still blocked inside the library: stop this process after saving the case
		}
		errs.Addf("deadlock=%v hang=%v steplimit=%v: %s", res.Deadlock, res.Hang, res.StepLimit, res.Detail)
		return out, errs.Err()
	}
	// a live handle stays registered: a later obtain returns it
	for i, h := range slots {
		if h != nil && !h.closed.Load() {
			if again := get(i, spelling[i]); again != h.s {
				errs.Addf("identity %d: the live scope obtained last is no longer registered (a later request returned a different scope)", i)
				// keep recording on the old handle below to show the loss
			}
		}
	}
	tally.VerifReportOnce(root)
	tally.VerifReportOnce(root)
	delivered := map[string]int64{}
	for _, e := range log.Events() {
		if e.Kind == rec.KCounter {
			delivered[rec.ID(e.Name, e.Tags)] += e.I
			if e.I <= 0 {
				errs.Addf("non-positive delta delivered: %v", e)
			}
		}
	}
	for id, u := range upper {
		l := lower[id]
		if got := delivered[id]; got < l || got > u {
			errs.Addf("%s: delivered %d, must be within [%d (completed before Close was called on its scope object, or scope never closed), %d (everything)]", id, got, l, u)
		}
	}
	for id, got := range delivered {
		if _, ok := upper[id]; !ok && got != 0 {
			errs.Addf("%s: %d delivered but nothing deliverable was recorded there (children of closed scopes are inert)", id, got)
		}
	}
	win := sched.CountPreempted(res.Trace, "registry.remove:", "registry.Report:reported", "registry.Report:saw-closed", "registry.Report:removed", "registry.Subscope:")
	out.NonTrivial = win > 0 && reacquired
	if win > 0 {
		out.Classes = append(out.Classes, "preempted-registry-window")
	}
	if reacquired {
		out.Classes = append(out.Classes, "reacquired")
	}
	if c.Sanitize {
		out.Classes = append(out.Classes, "sanitizer-aliases")
		if c.Wide {
			out.Classes = append(out.Classes, "alias-longer-than-canonical")
		}
	}
	if sched.PreemptedAt(res.Trace, "registry.remove:") {
		out.Classes = append(out.Classes, "preempted-lock-handover")
	}
	return out, errs.Err()
}

func TestC07(t *testing.T) {
	pbt.Main(t, pbt.Prop[Case]{
		ID: "C07", Name: "sched",
		Rule: "cooperative-scheduler mode: rapid generates 1..3 identities (SubScope and Tagged; in a quarter of the cases a root with a sanitizer whose identities can each be requested through two raw tag spellings that sanitize identically - differing in a one-byte character or, half the time, in a two-byte rune so that the raw key is longer than the canonical one while the identities' values extend each other by one byte), shard count 1/2/4, plain/cached, 1..3 application threads each 2..8 ops from {obtain(identity) into a shared slot, Inc on the slot's scope, Close the slot's scope, derive a child of it and Inc there, derive Tagged(nil)/Tagged({}) from it and Inc there}, 1..2 modelled ticker threads x 1..3 passes, AND the schedule (<=200 choices incl. the yield points around the registry's lock hand-over, between 'report scope' and the closed-flag handling, and inside the re-acquire path). Then two sequential passes. Oracle per identity: L <= delivered <= U with L = increments that completed before Close was called on their scope object plus all increments on objects never closed, U = all increments; children and empty-tag derivations obtained from an already closed scope deliver nothing; the live scope obtained last is still registered; a request never returns a scope object whose Close had returned before the request started; Close returns nil; no panic; deadlock decided exactly by the scheduler. Non-trivial: a re-acquire happened and some registry window (lock hand-over, report/closed check, re-acquire path) was preempted. Distinct: FNV-64 of program+schedule JSON.",
		Gen:  gen, Run: run, Retries: 30,
	})
}

package c07

import (
	"testing"
	"time"

	"pgregory.net/rapid"

	"verifharness/internal/freerun"
	"verifharness/internal/pbt"
)

// TestFree is the free-running mode (real parallelism against the library's
// real report loop; see internal/freerun), weighted towards this property.
func TestFree(t *testing.T) {
	pbt.Main(t, pbt.Prop[freerun.Case]{
		ID: "C07", Name: "free", Rule: freerun.Rule,
		Gen:     func(t *rapid.T) freerun.Case { return freerun.Gen(t, freerun.Profile{Inc: 1, Cycle: 5, Gauge: 1}) },
		Run:     freerun.Run,
		Retries: 30, HangAfter: 60 * time.Second,
	})
}

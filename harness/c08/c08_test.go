// C08: root Close is a complete, idempotent shutdown barrier.
package c08

import (
	"errors"
	"fmt"
	"sort"
	"strings"
	"sync"
	"sync/atomic"
	"testing"
	"time"

	tally "github.com/uber-go/tally/v4"
	"pgregory.net/rapid"

	"verifharness/internal/pbt"
	"verifharness/internal/rec"
	"verifharness/internal/sched"
	"verifharness/internal/sgen"
)

type Inc struct {
	C int   `json:"c"`
	D int64 `json:"d"`
}

type Case struct {
	Cached     bool    `json:"cached"`
	IntervalUS int     `json:"intervalUS"` // 0: root created without an interval
	Closer     int     `json:"closer"`     // 0 no io.Closer, 1 Closer returning nil, 2 Closer returning an error
	NSub       int     `json:"nsub"`
	Counters   []int   `json:"counters"` // scope index per counter (0 root)
	Pre        []Inc   `json:"pre"`      // recorded before any thread starts
	Recorders  [][]Inc `json:"recorders"`
	Closers    int     `json:"closers"`
	After      bool    `json:"after"` // after Close: record on old handles, obtain a scope, Close again
	// PreClosed: subscopes that are closed individually (values from Pre still pending) before any
	// thread starts; nothing is recorded on them afterwards. Reacquire: one more thread asks the root
	// for each of them again while the Close callers run (the library reports a closed scope it finds
	// under a requested key on the caller's goroutine): the pending values were recorded before the
	// root's Close was called, so they too must be delivered before Close returns, never after.
	// Dual: ONE reporter object is configured in both roles (Reporter and CachedReporter); it is still
	// one reporter: flushed at the end and closed exactly once
	Dual bool `json:"dual,omitempty"`
	// Two: TWO reporter objects are configured, a plain one and a cached one (both with or both
	// without io.Closer). Whichever of them the passes deliver to is the one that is flushed after
	// the last delivery and - if it can be closed - closed, once
	Two       bool  `json:"two,omitempty"`
	PreClosed []int `json:"preClosed,omitempty"`
	Reacquire bool  `json:"reacquire,omitempty"`
	Sched     []int `json:"sched"`
}

func gen(t *rapid.T) Case {
	c := Case{Cached: rapid.Bool().Draw(t, "cached")}
	c.IntervalUS = rapid.SampledFrom([]int{0, 100, 100, 200, 500, 1000}).Draw(t, "interval")
	c.Closer = rapid.IntRange(0, 2).Draw(t, "closer")
	c.NSub = rapid.IntRange(0, 8).Draw(t, "nsub")
	nc := rapid.IntRange(1, 4).Draw(t, "ncounters")
	for i := 0; i < nc; i++ {
		c.Counters = append(c.Counters, rapid.IntRange(0, c.NSub).Draw(t, "cscope"))
	}
	incs := func(max int, label string, live bool) []Inc {
		n := rapid.IntRange(0, max).Draw(t, label)
		var out []Inc
		for i := 0; i < n; i++ {
			in := Inc{rapid.IntRange(0, nc-1).Draw(t, "c"), int64(rapid.IntRange(1, 9).Draw(t, "d"))}
			if live && c.preClosed(c.Counters[in.C]) {
				continue // nothing is recorded on an individually closed subscope once the threads run
			}
			out = append(out, in)
		}
		return out
	}
	if c.NSub > 0 && rapid.IntRange(0, 2).Draw(t, "preclose?") == 0 {
		c.PreClosed = rapid.SliceOfNDistinct(rapid.IntRange(1, c.NSub), 1, 2, rapid.ID[int]).Draw(t, "preClosed")
		c.Reacquire = rapid.IntRange(0, 3).Draw(t, "reacquire") != 0
		// make it likely that something is pending on them
		c.Counters[0] = c.PreClosed[0]
	}
	c.Pre = incs(4, "npre", false)
	nr := rapid.IntRange(0, 2).Draw(t, "nrecorders")
	for i := 0; i < nr; i++ {
		c.Recorders = append(c.Recorders, incs(5, "nincs", true))
	}
	c.Dual = rapid.IntRange(0, 5).Draw(t, "dual") == 0
	c.Two = !c.Dual && rapid.IntRange(0, 5).Draw(t, "two") == 0
	c.Closers = rapid.SampledFrom([]int{1, 1, 1, 2, 3}).Draw(t, "closers")
	c.After = rapid.Bool().Draw(t, "after")
	c.Sched = sgen.Choices(t, 200, nr+c.Closers+3)
	return c
}

func (c Case) preClosed(scope int) bool {
	for _, p := range c.PreClosed {
		if p == scope {
			return true
		}
	}
	return false
}

var errReporterClose = errors.New("reporter-close-error")

func run(c Case) (pbt.Outcome, error) {
	var errs pbt.Errs
	var out pbt.Outcome
	log := &rec.Log{}
	opts := tally.ScopeOptions{OmitCardinalityMetrics: true}
	var cerr error
	if c.Closer == 2 {
		cerr = errReporterClose
	}
	if c.Dual {
		d := &rec.Dual{S: &rec.Stats{L: log}, C: &rec.Cached{L: log}}
		if c.Closer == 0 {
			opts.Reporter, opts.CachedReporter = d, d
		} else {
			dc := rec.DualCloser{Dual: d, Err: cerr}
			opts.Reporter, opts.CachedReporter = dc, dc
		}
	} else if c.Two {
		rs, rc := &rec.Stats{L: log, Child: 1}, &rec.Cached{L: log, Child: 2}
		if c.Closer == 0 {
			opts.Reporter, opts.CachedReporter = rs, rc
		} else {
			opts.Reporter, opts.CachedReporter = rec.StatsCloser{Stats: rs, Err: cerr}, rec.CachedCloser{Cached: rc, Err: cerr}
		}
	} else if c.Cached {
		r := &rec.Cached{L: log}
		if c.Closer == 0 {
			opts.CachedReporter = r
		} else {
			opts.CachedReporter = rec.CachedCloser{Cached: r, Err: cerr}
		}
	} else {
		r := &rec.Stats{L: log}
		if c.Closer == 0 {
			opts.Reporter = r
		} else {
			opts.Reporter = rec.StatsCloser{Stats: r, Err: cerr}
		}
	}

	s := sched.New(c.Sched)
	s.AdoptPrefix = "loop:"
	s.TerminalSites = map[string]bool{"loop:exit": true}
	s.IdleSites = map[string]bool{"loop:idle": true}
	s.Tau = 5 * time.Millisecond
	log.OnCall = s.Yield
	// the call that won the race to close is the one that passes the hook right after the
	// compare-and-swap; its thread name is remembered (intervals in the log cannot tell once
	// closers really run in parallel)
	var winner atomic.Value
	tally.VerifSetHooks(&tally.VerifHooks{Yield: func(site string) {
		if site == "scope.Close:cas-won" {
			if n := s.CurrentName(); strings.HasPrefix(n, "closer") {
				winner.CompareAndSwap(nil, n)
			}
		}
		s.Yield(site)
	}, Lock: s.Lock})
	defer tally.VerifSetHooks(nil)

	root, closer := tally.VerifNewRootScope(opts, time.Duration(c.IntervalUS)*time.Microsecond, 2)
	var loop *sched.Thread
	if c.IntervalUS > 0 {
		if !s.WaitAdopted(1, 5*time.Second) {
			s.Abort()
			return out, fmt.Errorf("harness: the report loop goroutine did not reach its first hook within 5s")
		}
		loop = s.Adopted()[0]
	}
	scopes := []tally.Scope{root}
	names := []string{""}
	for i := 1; i <= c.NSub; i++ {
		scopes = append(scopes, root.SubScope(fmt.Sprintf("s%d", i)))
		names = append(names, fmt.Sprintf("s%d.", i))
	}
	counters := make([]tally.Counter, len(c.Counters))
	cname := make([]string, len(c.Counters))
	for i, sc := range c.Counters {
		counters[i] = scopes[sc].Counter(fmt.Sprintf("c%d", i))
		cname[i] = names[sc] + fmt.Sprintf("c%d", i)
	}
	g := root.Gauge("g")
	g.Update(42.5)
	var mu sync.Mutex
	lower := map[string]int64{}
	upper := map[string]int64{}
	var closeCalled atomic.Bool
	for _, in := range c.Pre {
		counters[in.C].Inc(in.D)
		lower[cname[in.C]] += in.D
		upper[cname[in.C]] += in.D
	}
	for _, p := range c.PreClosed {
		if p >= 1 && p < len(scopes) {
			_ = scopes[p].(interface{ Close() error }).Close()
			// metrics asked for on the closed scope before it had its last report: whether their values
			// are delivered is left open (C07), but they must not break the pass that finds them
			scopes[p].Counter("oc").Inc(3)
			scopes[p].Gauge("og").Update(1.5)
			scopes[p].Histogram("oh", tally.ValueBuckets{1}).RecordValue(1)
			scopes[p].Timer("ot").Record(time.Millisecond)
		}
	}
	if c.Reacquire {
		s.Go("reacq", func() {
			for _, p := range c.PreClosed {
				root.SubScope(fmt.Sprintf("s%d", p))
				s.Yield("harness:reacquired")
			}
		})
	}
	for ri, incs := range c.Recorders {
		incs := incs
		s.Go(fmt.Sprintf("rec%d", ri), func() {
			for _, in := range incs {
				counters[in.C].Inc(in.D)
				sure := !closeCalled.Load()
				mu.Lock()
				upper[cname[in.C]] += in.D
				if sure {
					lower[cname[in.C]] += in.D
				}
				mu.Unlock()
				s.Yield("harness:after-inc")
			}
		})
	}
	loopSiteAtClose := ""
	var returned atomic.Int32
	for k := 0; k < c.Closers; k++ {
		k := k
		s.Go(fmt.Sprintf("closer%d", k), func() {
			if loop != nil && !closeCalled.Load() {
				loopSiteAtClose = loop.Site()
			}
			closeCalled.Store(true)
			log.Mark("close-call %d", k)
			err := closer.Close()
			done := loop == nil || loop.Done()
			log.Mark("close-ret %d err=%v loopdone=%v", k, err, done)
			returned.Add(1)
		})
	}
	if c.After {
		s.Go("after", func() {
			// post-Close activity starts only once every Close call has returned
			for returned.Load() < int32(c.Closers) {
				s.Yield("harness:wait-for-close:spin")
			}
			for i := range counters {
				if !c.preClosed(c.Counters[i]) {
					counters[i].Inc(1000)
				}
			}
			g.Update(7)
			// Tagged with no tags names the receiver's own identity: after Close it is as inert as any
			// other scope obtained afterwards (nothing recorded through it may reach the reporter)
			for _, self := range []tally.Scope{root.Tagged(nil), root.Tagged(map[string]string{})} {
				self.Timer("late_self_t").Record(time.Millisecond)
				self.Counter("late_self_c").Inc(1)
				self.Gauge("late_self_g").Update(1)
				self.Timer("late_self_t").Start().Stop()
			}
			late := root.SubScope("late")
			late.Counter("c").Inc(1)
			late.Tagged(map[string]string{"x": "y"}).Gauge("g").Update(1)
			// ... and through handles of subscopes that predate the Close
			for oi, old := range scopes {
				if c.preClosed(oi) {
					continue
				}
				l2 := old.SubScope("late2")
				l2.Counter("c").Inc(1)
				l2.Timer("t").Record(time.Millisecond)
				old.Tagged(map[string]string{"late": "3"}).Counter("c").Inc(1)
				old.Tagged(nil).Timer("late_self_t").Record(time.Millisecond)
				old.SubScope("").Timer("late_self_t").Record(time.Millisecond)
			}
			log.Mark("again-call")
			err2 := closer.Close()
			log.Mark("again-ret err=%v", err2)
		})
	}
	res := s.Run()
	tally.VerifSetHooks(nil)
	log.OnCall = nil
	for _, p := range res.Panics {
		errs.Addf("panic in thread %s: %s\n%s", p.Thread, p.Value, p.Stack)
	}
	if res.Deadlock || res.Hang || res.StepLimit {
		if res.Hang {
			errs.Poison() // a thread is still blocked inside the library: stop this process after saving the case
		}
		errs.Addf("shutdown did not complete: deadlock=%v hang=%v steplimit=%v: %s", res.Deadlock, res.Hang, res.StepLimit, res.Detail)
		return out, errs.Err()
	}

	ev := log.Events()
	firstCall, lastRet := -1, -1
	lastRetMark := ""
	type callInfo struct {
		call, ret int
		err       string
		loopDone  bool
	}
	calls := map[string]*callInfo{}
	againCall, againRet := -1, -1
	againErr := ""
	for _, e := range ev {
		if e.Kind != rec.KMark {
			continue
		}
		f := strings.Fields(e.Mark)
		switch f[0] {
		case "close-call":
			if firstCall < 0 {
				firstCall = e.Seq
			}
			calls[f[1]] = &callInfo{call: e.Seq, ret: -1}
		case "close-ret":
			lastRet = e.Seq
			lastRetMark = e.Mark
			calls[f[1]].ret = e.Seq
			calls[f[1]].err = strings.TrimPrefix(f[2], "err=")
			calls[f[1]].loopDone = f[3] == "loopdone=true"
		case "again-call":
			againCall = e.Seq
		case "again-ret":
			againRet = e.Seq
			againErr = strings.TrimPrefix(f[1], "err=")
		}
	}
	if firstCall < 0 || lastRet < 0 {
		return out, fmt.Errorf("harness: no Close call in the log")
	}
	isDelivery := func(k string) bool {
		return k == rec.KCounter || k == rec.KGauge || k == rec.KHValue || k == rec.KHDuration || k == rec.KTimer
	}
	delivered := map[string]int64{}
	lastPassDeliveryOf, lastFlushOf := map[int]int{}, map[int]int{} // per reporter (Two): log positions
	closedReporter := -1
	lastDelivery, lastFlushBeforeRet, closeSeq, nClose := -1, -1, -1, 0
	gaugeSeen := false
	for _, e := range ev {
		switch {
		case strings.HasPrefix(e.Kind, "alloc") || strings.HasPrefix(e.Kind, "bucket"):
			if _, lateTag := e.Tags["late"]; strings.Contains(e.Name, "late") || lateTag {
				errs.Addf("a scope obtained after Close is not inert, it allocated on the reporter: %v", e)
			}
		case isDelivery(e.Kind) || e.Kind == rec.KFlush:
			if e.Seq > lastRet {
				errs.Addf("reporter call after Close had returned (log %d > return at %d): %v", e.Seq, lastRet, e)
			}
			if closeSeq >= 0 {
				errs.Addf("reporter call after the reporter was closed: %v", e)
			}
			if isDelivery(e.Kind) && e.Kind != rec.KTimer {
				lastPassDeliveryOf[e.Thread] = e.Seq // (timers go out at once, passes deliver the rest)
			}
			if e.Kind == rec.KFlush && e.Seq < lastRet {
				lastFlushOf[e.Thread] = e.Seq
			}
			if isDelivery(e.Kind) {
				lastDelivery = e.Seq
				if e.Kind == rec.KCounter {
					delivered[e.Name] += e.I
				}
				if e.Kind == rec.KGauge && e.Name == "g" && e.F == 42.5 {
					gaugeSeen = true
				}
				if _, lateTag := e.Tags["late"]; strings.Contains(e.Name, "late") || lateTag {
					errs.Addf("a scope/metric obtained after Close delivered: %v", e)
				}
			}
			if e.Kind == rec.KFlush && e.Seq < lastRet {
				lastFlushBeforeRet = e.Seq
			}
		case e.Kind == rec.KClose:
			nClose++
			closeSeq = e.Seq
			closedReporter = e.Thread
		}
	}
	for id, u := range upper {
		l := lower[id]
		if got := delivered[id]; got < l || got > u {
			errs.Addf("%s: %d delivered by the time Close returned, must be within [%d (recorded before Close was called), %d (everything recorded)]", id, got, l, u)
		}
	}
	if !gaugeSeen {
		errs.Addf("gauge g=42.5 (updated before Close) was never delivered")
	}
	if lastFlushBeforeRet < firstCall {
		errs.Addf("no Flush between the Close call (log %d) and its return (log %d)", firstCall, lastRet)
	}
	if lastDelivery >= 0 && lastFlushBeforeRet < lastDelivery {
		errs.Addf("the last delivery (log %d) is not followed by a Flush before Close returned (last flush at %d, return at %d)", lastDelivery, lastFlushBeforeRet, lastRet)
	}
	if c.Two {
		for r, at := range lastPassDeliveryOf {
			if f, ok := lastFlushOf[r]; !ok || f < at {
				errs.Addf("two reporters: reporter %d received its last delivery of a pass at log %d and no Flush after it before Close returned (its last Flush: %d, have=%v)", r, at, f, ok)
			}
		}
		if nClose == 1 {
			if _, got := lastPassDeliveryOf[closedReporter]; !got && len(lastPassDeliveryOf) > 0 {
				errs.Addf("two reporters: the passes delivered to reporter(s) %v, but the one that was closed is reporter %d, which they never delivered to", keysOf(lastPassDeliveryOf), closedReporter)
			}
		}
	}
	if c.Closer == 0 {
		if nClose != 0 {
			errs.Addf("reporter without io.Closer got %d Close calls?!", nClose)
		}
	} else {
		if nClose != 1 {
			errs.Addf("reporter Close called %d times, want exactly once", nClose)
		} else {
			if closeSeq < lastFlushBeforeRet || closeSeq < lastDelivery {
				errs.Addf("reporter closed (log %d) before the final flush (log %d) / last delivery (log %d)", closeSeq, lastFlushBeforeRet, lastDelivery)
			}
			w, _ := winner.Load().(string)
			wk := strings.TrimPrefix(w, "closer")
			if w == "" {
				errs.Addf("the reporter was closed but no Close call passed the point right after winning the race")
			}
			for k, ci := range calls {
				if k == wk {
					want := "<nil>"
					if c.Closer == 2 {
						want = errReporterClose.Error()
					}
					if ci.err != want {
						errs.Addf("Close call %s closed the reporter and returned %q, want the reporter's error %q", k, ci.err, want)
					}
					if !(ci.call < closeSeq && closeSeq < ci.ret) {
						errs.Addf("the reporter's Close (log %d) did not happen inside the winning Close call %s (log %d..%d)", closeSeq, k, ci.call, ci.ret)
					}
				} else if ci.err != "<nil>" {
					errs.Addf("Close call %s did not close the reporter but returned %q, want nil", k, ci.err)
				}
			}
		}
	}
	if c.Closer == 0 {
		for k, ci := range calls {
			if ci.err != "<nil>" {
				errs.Addf("Close call %s returned %q, want nil", k, ci.err)
			}
		}
	}
	// the call that did the shutdown work (the one whose interval contains the final flush) must
	// find the reporting goroutine ended when it returns; calls that lost the race may return
	// earlier (weakest reading: the barrier is judged once all calls have returned), and their own
	// reading of the flag is not ordered with the winner's progress
	_ = lastRetMark
	if w, _ := winner.Load().(string); w != "" {
		if ci := calls[strings.TrimPrefix(w, "closer")]; ci != nil && !ci.loopDone {
			errs.Addf("when Close call %s (which won the race and ran the final report) returned, the reporting goroutine had not ended", strings.TrimPrefix(w, "closer"))
		}
	}
	if againCall >= 0 {
		if againErr != "<nil>" {
			errs.Addf("a further Close returned %q, want nil", againErr)
		}
		for _, e := range ev {
			if e.Seq > againCall && e.Seq < againRet && e.Kind != rec.KMark {
				errs.Addf("a further Close made reporter calls: %v", e)
			}
		}
	}
	midPass := loopSiteAtClose != "" && loopSiteAtClose != "loop:idle" && loopSiteAtClose != "loop:exit"
	out.NonTrivial = midPass
	if midPass {
		out.Classes = append(out.Classes, "close-during-periodic-pass")
	} else if c.IntervalUS > 0 {
		out.Classes = append(out.Classes, "close-between-ticks")
	} else {
		out.Classes = append(out.Classes, "no-interval")
	}
	if c.Closers > 1 {
		out.Classes = append(out.Classes, "concurrent-closers")
	}
	if c.Reacquire {
		out.Classes = append(out.Classes, "closed-subscope-requested-again-during-close")
	}
	if c.Dual {
		out.Classes = append(out.Classes, "one-reporter-object-in-both-roles")
	}
	if c.Two {
		out.Classes = append(out.Classes, "a-plain-and-a-cached-reporter")
	}
	if res.Detaches > 0 {
		out.Classes = append(out.Classes, "close-waited-for-loop")
	}
	return out, errs.Err()
}

func TestC08(t *testing.T) {
	pbt.Main(t, pbt.Prop[Case]{
		ID: "C08", Name: "sched",
		Rule: "cooperative-scheduler mode with the REAL report-loop goroutine adopted as a controlled thread (it parks at its hooks; resuming it from 'idle' waits for the next real tick of a 100us..1ms ticker), or a root without interval: rapid generates 0..8 subscopes, counters, pre-recorded values, 0..2 recorder threads, 1..3 concurrent Close callers, post-Close activity (record on old handles, obtain scopes from the root and from subscope handles that predate the Close, Close again), plain/cached reporter (or one object in both roles, or a plain AND a cached reporter) with/without io.Closer (nil or error), AND the schedule (<=200 choices: where the loop goroutine is - before the first tick, between ticks, at any hook inside a periodic pass or inside a reporter call - when Close is called, and how Close's steps interleave with it). Oracle over the ordered reporter log with Close call/return markers: everything recorded before Close was called is delivered (bounds up to all) before the last Close call returned, followed by a Flush; reporter closed exactly once after that flush inside the winner's call whose return value is its error, others nil; no reporter call after the return; the loop goroutine has ended by then; further Close returns nil and calls nothing; late scopes deliver nothing; no panic, no hang. Non-trivial: Close was called while the loop goroutine was inside a periodic pass. Distinct: FNV-64 of program+schedule JSON.",
		Gen:  gen, Run: run, Retries: 20,
	})
}

func keysOf(m map[int]int) []int {
	var ks []int
	for k := range m {
		ks = append(ks, k)
	}
	sort.Ints(ks)
	return ks
}

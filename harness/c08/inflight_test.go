package c08

import (
	"fmt"
	"strings"
	"sync"
	"sync/atomic"
	"testing"
	"time"

	tally "github.com/uber-go/tally/v4"
	"pgregory.net/rapid"

	"verifharness/internal/pbt"
	"verifharness/internal/rec"
)

// InflightCase: Close is called while other goroutines are in the middle of creating metrics for
// the first time - inside the cached reporter's Allocate call, which the scope makes while it
// holds the lock of that metric kind (a reporter that registers, interns or takes a lock of its
// own there takes its time). Whatever the final pass does about that, "everything recorded before
// the root's Close is called has been delivered to the reporter, followed by a Flush, before Close
// returns" - the values below were all recorded, and their calls had returned, before Close was
// called.
type InflightCase struct {
	Shards     uint     `json:"shards"`
	IntervalMS int      `json:"intervalMS"` // 0: no report loop
	Scopes     []int    `json:"scopes"`     // besides the root: 1 SubScope, 2 Tagged, 3 SubScope of the previous scope
	Old        []OldRec `json:"old"`        // recorded (and returned) before anything else happens
	New        []NewReq `json:"new"`        // first uses whose Allocate call is held open while Close is called
	HoldMS     int      `json:"holdMS"`     // how long the Allocate calls stay open after Close was called
	CloseSub   int      `json:"closeSub"`   // >0: that scope is closed individually (while its allocation is in flight), then the root
}

type OldRec struct {
	S int    `json:"s"`
	K string `json:"k"` // counter gauge hist
	V int64  `json:"v"`
}

type NewReq struct {
	S int    `json:"s"`
	K string `json:"k"`
}

func genInflight(t *rapid.T) InflightCase {
	c := InflightCase{Shards: uint(rapid.SampledFrom([]int{1, 2, 4, 16}).Draw(t, "shards")),
		IntervalMS: rapid.SampledFrom([]int{0, 0, 0, 50}).Draw(t, "interval"),
		HoldMS:     rapid.SampledFrom([]int{1, 3, 10}).Draw(t, "hold")}
	c.Scopes = rapid.SliceOfN(rapid.IntRange(1, 3), 0, 3).Draw(t, "scopes")
	ns := len(c.Scopes) + 1
	kinds := rapid.SampledFrom([]string{"counter", "counter", "gauge", "hist"})
	no := rapid.IntRange(1, 6).Draw(t, "nold")
	for i := 0; i < no; i++ {
		c.Old = append(c.Old, OldRec{S: rapid.IntRange(0, ns-1).Draw(t, "s"), K: kinds.Draw(t, "k"), V: int64(rapid.IntRange(1, 9).Draw(t, "v"))})
	}
	nn := rapid.IntRange(1, 4).Draw(t, "nnew")
	for i := 0; i < nn; i++ {
		// mostly where something old is waiting, and of its kind
		if rapid.IntRange(0, 3).Draw(t, "same") != 0 {
			o := c.Old[rapid.IntRange(0, len(c.Old)-1).Draw(t, "o")]
			c.New = append(c.New, NewReq{S: o.S, K: o.K})
		} else {
			c.New = append(c.New, NewReq{S: rapid.IntRange(0, ns-1).Draw(t, "s"), K: kinds.Draw(t, "k")})
		}
	}
	if ns > 1 && rapid.IntRange(0, 3).Draw(t, "closeSub?") == 0 {
		c.CloseSub = rapid.IntRange(1, ns-1).Draw(t, "closeSub")
	}
	return c
}

func runInflight(c InflightCase) (pbt.Outcome, error) {
	var errs pbt.Errs
	var out pbt.Outcome
	log := &rec.Log{}
	entered := make(chan struct{}, 64)
	release := make(chan struct{})
	log.Gate = func(e rec.Event) {
		if strings.HasPrefix(e.Kind, "alloc-") && strings.Contains(e.Name, "new") {
			entered <- struct{}{}
			<-release
		}
	}
	root, closer := tally.VerifNewRootScope(tally.ScopeOptions{CachedReporter: &rec.Cached{L: log}, OmitCardinalityMetrics: true},
		time.Duration(c.IntervalMS)*time.Millisecond, c.Shards)
	type sinfo struct {
		s      tally.Scope
		prefix string
		tags   map[string]string
	}
	scopes := []sinfo{{root, "", map[string]string{}}}
	for i, k := range c.Scopes {
		prev := scopes[len(scopes)-1]
		switch k {
		case 1:
			scopes = append(scopes, sinfo{root.SubScope(fmt.Sprintf("s%d", i)), fmt.Sprintf("s%d", i), map[string]string{}})
		case 2:
			scopes = append(scopes, sinfo{root.Tagged(map[string]string{"t": fmt.Sprint(i)}), "", map[string]string{"t": fmt.Sprint(i)}})
		default:
			p := fmt.Sprintf("n%d", i)
			if prev.prefix != "" {
				p = prev.prefix + "." + p
			}
			scopes = append(scopes, sinfo{prev.s.SubScope(fmt.Sprintf("n%d", i)), p, prev.tags})
		}
	}
	full := func(si sinfo, name string) string {
		if si.prefix != "" {
			return si.prefix + "." + name
		}
		return name
	}
	wantC := map[string]int64{}
	wantG := map[string]float64{}
	wantH := map[string]int64{}
	for _, o := range c.Old {
		si := scopes[o.S%len(scopes)]
		switch o.K {
		case "counter":
			si.s.Counter("old_c").Inc(o.V)
			wantC[rec.ID(full(si, "old_c"), si.tags)] += o.V
		case "gauge":
			si.s.Gauge("old_g").Update(float64(o.V))
			wantG[rec.ID(full(si, "old_g"), si.tags)] = float64(o.V)
		default:
			si.s.Histogram("old_h", tally.ValueBuckets{10}).RecordValue(float64(o.V))
			wantH[rec.ID(full(si, "old_h"), si.tags)]++
		}
	}
	// the first uses: each blocks inside Allocate until released. Requests of one kind on one scope
	// queue behind each other on the scope's lock, so only the distinct (scope, kind) pairs can be
	// inside Allocate at the same time.
	distinct := map[string]bool{}
	var wg sync.WaitGroup
	for i, n := range c.New {
		si := scopes[n.S%len(scopes)]
		distinct[fmt.Sprintf("%d/%s", n.S%len(scopes), n.K)] = true
		wg.Add(1)
		go func(i int, n NewReq) {
			defer wg.Done()
			defer func() { _ = recover() }()
			name := fmt.Sprintf("new_%d", i)
			switch n.K {
			case "counter":
				si.s.Counter(name).Inc(1)
			case "gauge":
				si.s.Gauge(name).Update(1)
			default:
				si.s.Histogram(name, tally.ValueBuckets{10}).RecordValue(1)
			}
		}(i, n)
	}
	inflight := 0
	timeout := time.After(2 * time.Second)
wait:
	for inflight < len(distinct) {
		select {
		case <-entered:
			inflight++
		case <-timeout:
			break wait
		}
	}
	var closeReturnedAt atomic.Int64
	closeReturnedAt.Store(-1)
	var closeErr error
	closeDone := make(chan struct{})
	go func() {
		defer close(closeDone)
		defer func() {
			if p := recover(); p != nil {
				closeErr = fmt.Errorf("panic: %v", p)
			}
		}()
		if c.CloseSub > 0 {
			if cl, ok := scopes[c.CloseSub%len(scopes)].s.(interface{ Close() error }); ok {
				_ = cl.Close()
			}
		}
		closeErr = closer.Close()
		closeReturnedAt.Store(int64(log.Len()))
	}()
	// the hold only selects the interleaving; it decides nothing (an implementation may wait for the
	// allocations - then Close returns after the release - or not)
	select {
	case <-closeDone:
	case <-time.After(time.Duration(c.HoldMS) * time.Millisecond):
	}
	close(release)
	hung := false
	select {
	case <-closeDone:
	case <-time.After(30 * time.Second):
		hung = true
	}
	if hung {
		errs.Addf("Close did not return within 30 s of the in-flight allocations being released")
		errs.Poison()
		return out, errs.Err()
	}
	wg.Wait()
	if closeErr != nil {
		errs.Addf("Close returned %v", closeErr)
	}
	evs := log.Events()
	upto := int(closeReturnedAt.Load())
	if upto < 0 || upto > len(evs) {
		upto = len(evs)
	}
	gotC, gotH := map[string]int64{}, map[string]int64{}
	gotG := map[string]float64{}
	lastOld, lastFlush := -1, -1
	for i, e := range evs[:upto] {
		if !strings.Contains(e.Name, "old_") {
			if e.Kind == rec.KFlush {
				lastFlush = i
			}
			continue
		}
		switch e.Kind {
		case rec.KCounter:
			gotC[rec.ID(e.Name, e.Tags)] += e.I
			lastOld = i
		case rec.KGauge:
			gotG[rec.ID(e.Name, e.Tags)] = e.F
			lastOld = i
		case rec.KHValue:
			gotH[rec.ID(e.Name, e.Tags)] += e.I
			lastOld = i
		}
	}
	for id, w := range wantC {
		if gotC[id] != w {
			errs.Addf("counter %s: %d delivered when Close returned, %d had been recorded before Close was called (%d first-use allocations were in flight)", id, gotC[id], w, inflight)
		}
	}
	for id, w := range wantG {
		if g, ok := gotG[id]; !ok || g != w {
			errs.Addf("gauge %s: delivered %v (present=%v) when Close returned, last update before Close was called is %v (%d first-use allocations were in flight)", id, g, ok, w, inflight)
		}
	}
	for id, w := range wantH {
		if gotH[id] != w {
			errs.Addf("histogram %s: %d samples delivered when Close returned, %d had been recorded before Close was called (%d first-use allocations were in flight)", id, gotH[id], w, inflight)
		}
	}
	if lastFlush < lastOld {
		errs.Addf("no Flush after the last delivery (event %d) before Close returned (last Flush: event %d)", lastOld, lastFlush)
	}
	sameKind := false
	for _, n := range c.New {
		for _, o := range c.Old {
			if o.S%len(scopes) == n.S%len(scopes) && o.K == n.K {
				sameKind = true
			}
		}
	}
	out.NonTrivial = inflight > 0 && sameKind
	if inflight > 0 {
		out.Classes = append(out.Classes, "allocation-in-flight-at-close")
	}
	if c.CloseSub > 0 {
		out.Classes = append(out.Classes, "subscope-closed-first")
	}
	return out, errs.Err()
}

func TestInflight(t *testing.T) {
	pbt.Main(t, pbt.Prop[InflightCase]{
		ID: "C08", Name: "inflight",
		Rule: "free-running mode with gates: a root over a cached recorder (shards 1/2/4/16; no report loop, or a 50 ms one) with 0..3 derived scopes; 1..6 counter increments / gauge updates / histogram samples are recorded and their calls have returned; then 1..4 goroutines request NEW metrics (mostly of the same kind on the same scopes) and are held inside the reporter's Allocate call - where the scope holds the lock of that kind - while Close is called on the root (in a quarter of the cases on one subscope first); the allocations are released 1/3/10 ms later (the time selects the interleaving and decides nothing). Oracle at the moment Close returned: every counter sum, last gauge value and histogram sample count recorded before Close was called has been delivered, a Flush follows the last delivery, Close returned nil and within 30 s. Non-trivial: an allocation was in flight for a kind and scope that had undelivered values. Distinct: FNV-64 of the case JSON.",
		Gen:  genInflight, Run: runInflight, Retries: 5, HangAfter: 90 * time.Second,
	})
}

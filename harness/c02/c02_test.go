// C02: gauge reports carry the latest value, never a stale or invented one.
package c02

import (
	"fmt"
	"math"
	"os"
	"strings"
	"testing"

	tally "github.com/uber-go/tally/v4"
	"pgregory.net/rapid"

	"verifharness/internal/pbt"
	"verifharness/internal/rec"
	"verifharness/internal/sched"
	"verifharness/internal/sgen"
)

type Case struct {
	Cached  bool      `json:"cached"`
	Updates [][]pbt.F `json:"updates"` // one updater thread per gauge
	Passes  []int     `json:"passes"`  // passes per reporter thread
	Sched   []int     `json:"sched"`
	// Filler: that many further gauges f0.. are created in the same scope AFTER the judged ones and
	// updated once before the threads start (a scope's metric tables grow; handles handed out
	// earlier must stay the ones the report pass looks at)
	Filler int `json:"filler,omitempty"`
	// Caps: what the recording reporter says about itself (rec.CapsOf): advisory only
	Caps int `json:"caps,omitempty"`
	// Both: a plain AND a cached reporter are configured. Whichever of them is handed gauge values at
	// all must end up with the last update as its most recent value.
	Both bool `json:"both,omitempty"`
	// Via: per gauge, through which spelling of the SAME scope the updater's handle was obtained
	// (0: the root only; else the updater alternates between the root's handle and 1: root.Tagged(nil); 2: root.Tagged({}); 3: root.SubScope("") - all of them are
	// the root's own prefix and tags, so all name the one gauge the first handle names), and the
	// registry's shard count (0: 1)
	Via    []int `json:"via,omitempty"`
	Shards uint  `json:"shards,omitempty"`
}

func gen(t *rapid.T) Case {
	c := Case{Cached: rapid.Bool().Draw(t, "cached")}
	c.Caps = rapid.SampledFrom([]int{0, 0, 0, 1, 2, 3}).Draw(t, "caps")
	c.Both = rapid.IntRange(0, 5).Draw(t, "both") == 0
	if rapid.IntRange(0, 7).Draw(t, "filler?") == 0 {
		c.Filler = rapid.IntRange(14, 70).Draw(t, "filler")
	}
	ng := rapid.IntRange(1, 2).Draw(t, "ngauges")
	for i := 0; i < ng; i++ {
		n := rapid.IntRange(1, 6).Draw(t, "nupdates")
		var vs []pbt.F
		for j := 0; j < n; j++ {
			switch rapid.IntRange(0, 2).Draw(t, "vk") {
			case 0:
				vs = append(vs, pbt.FOf(float64(j+1)))
			default:
				vs = append(vs, pbt.AnyFloat().Draw(t, "v"))
			}
		}
		c.Updates = append(c.Updates, vs)
	}
	nr := rapid.IntRange(1, 3).Draw(t, "nreporters")
	for i := 0; i < nr; i++ {
		c.Passes = append(c.Passes, rapid.IntRange(1, 3).Draw(t, "npasses"))
	}
	if rapid.IntRange(0, 3).Draw(t, "via?") == 0 {
		for i := 0; i < ng; i++ {
			c.Via = append(c.Via, rapid.IntRange(0, 3).Draw(t, "via"))
		}
		c.Shards = uint(rapid.SampledFrom([]int{1, 2, 4, 16, 64}).Draw(t, "shards"))
	}
	c.Sched = sgen.Choices(t, 120, ng+nr)
	return c
}

func run(c Case) (pbt.Outcome, error) {
	var errs pbt.Errs
	var out pbt.Outcome
	log := &rec.Log{}
	opts := tally.ScopeOptions{OmitCardinalityMetrics: true}
	if c.Both {
		opts.Reporter = &rec.Stats{L: log, Child: 1, Caps: rec.CapsOf(c.Caps)}
		opts.CachedReporter = &rec.Cached{L: log, Child: 2, Caps: rec.CapsOf(c.Caps)}
	} else if c.Cached {
		opts.CachedReporter = &rec.Cached{L: log, Caps: rec.CapsOf(c.Caps)}
	} else {
		opts.Reporter = &rec.Stats{L: log, Caps: rec.CapsOf(c.Caps)}
	}
	shards := c.Shards
	if shards == 0 {
		shards = 1
	}
	root, _ := tally.VerifNewRootScope(opts, 0, shards)
	gauges := make([]tally.Gauge, len(c.Updates))
	aliases := make([]tally.Gauge, len(c.Updates)) // the updater alternates between the two handles
	for i := range c.Updates {
		gauges[i] = root.Gauge(fmt.Sprintf("g%d", i))
		if i < len(c.Via) && c.Via[i] > 0 {
			var alias tally.Scope
			switch c.Via[i] {
			case 1:
				alias = root.Tagged(nil)
			case 2:
				alias = root.Tagged(map[string]string{})
			default:
				alias = root.SubScope("")
			}
			aliases[i] = alias.Gauge(fmt.Sprintf("g%d", i))
			out.Classes = append(out.Classes, "handle-through-another-spelling-of-the-root")
		}
	}
	for i := 0; i < c.Filler; i++ {
		root.Gauge(fmt.Sprintf("f%d", i)).Update(0.5)
	}
	s := sched.New(c.Sched)
	s.MaxSteps += 1000 * c.Filler // every filler gauge adds hook visits to every pass
	log.OnCall = s.Yield
	tally.VerifSetHooks(&tally.VerifHooks{Yield: s.Yield, Lock: s.Lock})
	defer tally.VerifSetHooks(nil)
	for gi, vs := range c.Updates {
		gi, vs := gi, vs
		s.Go(fmt.Sprintf("upd%d", gi), func() {
			for ui, v := range vs {
				log.Mark("upd-start g%d %d", gi, ui)
				if aliases[gi] != nil && ui%2 == 1 {
					aliases[gi].Update(v.V())
				} else {
					gauges[gi].Update(v.V())
				}
				log.Mark("upd-end g%d %d", gi, ui)
				s.Yield("harness:after-update")
			}
		})
	}
	for ri, n := range c.Passes {
		ri, n := ri, n
		s.Go(fmt.Sprintf("rep%d", ri), func() {
			for p := 0; p < n; p++ {
				log.Mark("pass-start r%d %d", ri, p)
				tally.VerifReportLoopRun(root)
				log.Mark("pass-end r%d %d", ri, p)
				s.Yield("harness:after-pass")
			}
		})
	}
	res := s.Run()
	lastOptions = res.Options
	tally.VerifSetHooks(nil)
	log.OnCall = nil
	for _, p := range res.Panics {
		errs.Addf("panic in thread %s: %s\n%s", p.Thread, p.Value, p.Stack)
	}
	if res.Deadlock || res.Hang || res.StepLimit {
		if res.Hang {
			errs.Poison() // a thread is still blocked inside the library: stop this process after saving the case
		}
		errs.Addf("threads did not finish: deadlock=%v hang=%v steplimit=%v: %s", res.Deadlock, res.Hang, res.StepLimit, res.Detail)
		return out, errs.Err()
	}
	log.Mark("pass-start final 0")
	tally.VerifReportOnce(root)
	log.Mark("pass-end final 0")
	quiet := log.Len()
	tally.VerifReportOnce(root)

	events := log.Events()
	for _, e := range events[quiet:] {
		if e.Kind == rec.KGauge {
			errs.Addf("a gauge that was not updated since it was last delivered was delivered again: %v", e)
		}
	}
	for gi, vs := range c.Updates {
		name := fmt.Sprintf("g%d", gi)
		started := 0
		ended := 0
		deliveries := 0
		var last *rec.Event
		lastOf := map[int]*rec.Event{} // per reporter (Both: 1 plain, 2 cached)
		lastUpdEnd := -1
		type passInfo struct{ start, end int }
		open := map[string]int{}
		openNow := map[string]int{} // passes begun and not ended yet
		var updStart, updEnd []int  // log positions of this gauge's updates (its updater is one thread: in order)
		prevDelivery, prevPassStart := -1, -1
		var passes []passInfo
		for i := range events {
			e := events[i]
			switch {
			case e.Kind == rec.KMark && strings.HasPrefix(e.Mark, "upd-start "+name+" "):
				started++
				updStart = append(updStart, e.Seq)
			case e.Kind == rec.KMark && strings.HasPrefix(e.Mark, "upd-end "+name+" "):
				ended++
				updEnd = append(updEnd, e.Seq)
				if ended == len(vs) {
					lastUpdEnd = e.Seq
				}
			case e.Kind == rec.KMark && strings.HasPrefix(e.Mark, "pass-start "):
				open[strings.TrimPrefix(e.Mark, "pass-start ")] = e.Seq
				openNow[strings.TrimPrefix(e.Mark, "pass-start ")] = e.Seq
			case e.Kind == rec.KMark && strings.HasPrefix(e.Mark, "pass-end "):
				k := strings.TrimPrefix(e.Mark, "pass-end ")
				passes = append(passes, passInfo{open[k], e.Seq})
				delete(openNow, k)
			case e.Kind == rec.KGauge && e.Name == name:
				// "a gauge that has not been updated since it was last delivered is not delivered again":
				// the previous delivery was made by a pass that began no earlier than the earliest pass
				// open at that moment; an update that set the flag anew ended after that and began before
				// this delivery. No such update: a re-delivery.
				if prevDelivery >= 0 {
					fresh := false
					for ui := range updStart {
						end := int(^uint(0) >> 1)
						if ui < len(updEnd) {
							end = updEnd[ui]
						}
						if end > prevPassStart && updStart[ui] < e.Seq {
							fresh = true
						}
					}
					if !fresh {
						errs.Addf("%s: delivered again at log position %d (%v) although no Update ran between the pass of the previous delivery (log %d, pass began at or after log %d) and this one", name, e.Seq, e.F, prevDelivery, prevPassStart)
					}
				}
				prevDelivery, prevPassStart = e.Seq, e.Seq
				for _, st := range openNow {
					if st < prevPassStart {
						prevPassStart = st
					}
				}
				deliveries++
				if deliveries > started {
					errs.Addf("%s: delivery #%d at log position %d but only %d updates had started", name, deliveries, e.Seq, started)
				}
				ok := false
				for ui := 0; ui < started && ui < len(vs); ui++ {
					if math.Float64bits(e.F) == uint64(vs[ui]) {
						ok = true
					}
				}
				if !ok {
					errs.Addf("%s: delivered value %v (bits %016x) was not passed to an Update that had started (updates %v, %d started)", name, e.F, math.Float64bits(e.F), vs, started)
				}
				ev := e
				last = &ev
				lastOf[e.Thread] = &ev
			}
		}
		// first pass that starts after the last update returned: at its end, and at the end of the
		// history, the most recent delivered value is the last update
		want := uint64(vs[len(vs)-1])
		for _, p := range passes {
			// only a pass that overlaps no other pass is judged at its own end: while another
			// pass is still between consuming the flag and delivering, the value is in flight
			// and the end-of-history clause below is the one that decides
			overlaps := false
			for _, q := range passes {
				if q != p && q.start < p.end && q.end > p.start {
					overlaps = true
				}
			}
			if overlaps {
				continue
			}
			if lastUpdEnd >= 0 && p.start > lastUpdEnd {
				var recent *rec.Event
				for i := range events {
					if events[i].Seq > p.end {
						break
					}
					if events[i].Kind == rec.KGauge && events[i].Name == name {
						recent = &events[i]
					}
				}
				if recent == nil || math.Float64bits(recent.F) != want {
					errs.Addf("%s: a pass that started (log %d) after the last Update returned (log %d) has ended (log %d) and the reporter's most recent value is %v, last update was %v", name, p.start, lastUpdEnd, p.end, describe(recent), vs[len(vs)-1])
				}
				break
			}
		}
		if last == nil || math.Float64bits(last.F) != want {
			errs.Addf("%s: at the end of the history the reporter's most recent value is %v, last update was %v (bits %016x)", name, describe(last), vs[len(vs)-1], want)
		}
		for r, l := range lastOf {
			if math.Float64bits(l.F) != want {
				errs.Addf("%s: reporter %d was handed gauge values and its most recent one at the end of the history is %v, last update was %v (bits %016x)", name, r, describe(l), vs[len(vs)-1], want)
			}
		}
	}
	fillerSeen := map[string]int{}
	for _, e := range events {
		if e.Kind == rec.KGauge && strings.HasPrefix(e.Name, "f") {
			fillerSeen[e.Name]++
			if e.F != 0.5 {
				errs.Addf("filler gauge %s delivered %v, was updated to 0.5", e.Name, e.F)
			}
		}
	}
	for i := 0; i < c.Filler; i++ {
		if n := fillerSeen[fmt.Sprintf("f%d", i)]; n != 1 {
			errs.Addf("filler gauge f%d (updated once) was delivered %d times", i, n)
		}
	}
	if c.Filler > 0 {
		out.Classes = append(out.Classes, "many-gauges-in-one-scope")
	}
	if c.Both {
		out.Classes = append(out.Classes, "plain-and-cached-reporter")
	}
	pre := sched.CountPreempted(res.Trace, "gauge.report:swapped", "gauge.Update:stored-value", "rep:gauge")
	out.NonTrivial = pre > 0
	if sched.PreemptedAt(res.Trace, "gauge.Update:stored-value") {
		out.Classes = append(out.Classes, "preempted-update-window")
	}
	if sched.PreemptedAt(res.Trace, "gauge.report:swapped") {
		out.Classes = append(out.Classes, "preempted-swap-load-window")
	}
	if sched.PreemptedAt(res.Trace, "rep:gauge") {
		out.Classes = append(out.Classes, "preempted-load-deliver-window")
	}
	return out, errs.Err()
}

func describe(e *rec.Event) string {
	if e == nil {
		return "<none delivered>"
	}
	return fmt.Sprintf("%v (bits %016x, log %d)", e.F, math.Float64bits(e.F), e.Seq)
}

func TestC02(t *testing.T) {
	pbt.Main(t, pbt.Prop[Case]{
		ID: "C02", Name: "sched",
		Rule: "cooperative-scheduler mode: rapid generates 1..2 gauges each with one updater thread (1..6 values from hostile float64 bit patterns: NaN payloads, +-Inf, -0, subnormals, raw bits), 1..3 reporter threads x 1..3 modelled ticker passes, plain/cached, in a quarter of the cases the updaters' handles obtained through another spelling of the root (Tagged(nil), Tagged({}), SubScope(\"\")) under 1..64 registry shards, AND the schedule (<=120 choices at the yield points between the two stores of Update, between swap and load of the report, and at the reporter call, i.e. between load and delivery). Then a sequential pass and a second one that must be silent. Oracle over the ordered log: every delivered value is bit-identical to a value whose Update had started; deliveries never outnumber started updates; the first pass starting after the last Update returned leaves the most recent delivered value equal to the last update, as does the end of the history; no re-delivery without update (neither in the final silent pass nor in the middle of the history: between two deliveries an Update must have run). Non-trivial: a preempted Update store/store, swap/load or load/deliver window. Distinct: FNV-64 of program+schedule JSON.",
		Gen:  gen, Run: run, Retries: 10,
	})
}

// ---------------------------------------------------------------- bounded-exhaustive micro-scenario

var lastOptions []int

func enumBound() int {
	if os.Getenv("VERIF_TIER") == "thorough" {
		return 5
	}
	return 3
}

// TestExhaustive enumerates EVERY schedule with at most 3 (quick) / 5 (thorough) preemptions of
// deterministic micro-scenarios: one gauge on the root (shard count 1), one updater doing
// Update(1), Update(2), two reporter threads doing one modelled pass each; plain and cached.
func TestExhaustive(t *testing.T) {
	prop := pbt.Prop[Case]{
		ID: "C02", Name: "exhaustive",
		Rule: "bounded-exhaustive mode: ALL schedules with at most 3 (quick) / 5 (thorough) non-default scheduler choices (preemptions) of fixed deterministic micro-scenarios {one gauge on the root, shard count 1, one updater thread doing Update(1), Update(2), two reporter threads doing one modelled pass each; plain and cached}, enumerated depth-first over the verif yield points; same oracle as the generated mode. Non-trivial: an Update store/store, swap/load or load/deliver window was preempted.",
		Run:  run,
	}
	pbt.MainEnum(t, prop, func(emit func(c Case) bool) bool {
		all := true
		for _, cached := range []bool{false, true} {
			base := Case{Cached: cached, Updates: [][]pbt.F{{pbt.FOf(1), pbt.FOf(2)}}, Passes: []int{1, 1}}
			_, ex := sched.Enumerate(enumBound(), 3000000, func(prefix []int) ([]int, bool) {
				c := base
				c.Sched = append([]int(nil), prefix...)
				ok := emit(c)
				return lastOptions, ok
			})
			all = all && ex
		}
		return all
	})
}

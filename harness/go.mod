module verifharness

go 1.23

toolchain go1.23.5

require (
	github.com/cactus/go-statsd-client/v5 v5.0.0
	github.com/uber-go/tally/v4 v4.0.0
	pgregory.net/rapid v1.3.0
)

require (
	github.com/golang/mock v1.6.0 // indirect
	github.com/pkg/errors v0.9.1 // indirect
	github.com/twmb/murmur3 v1.1.8 // indirect
	go.uber.org/atomic v1.11.0 // indirect
)

replace github.com/uber-go/tally/v4 => /repo

// C03: each histogram sample lands in the one correct bucket; buckets tile the line.
package c03

import (
	"fmt"
	"math"
	"sort"
	"testing"
	"time"

	tally "github.com/uber-go/tally/v4"
	"pgregory.net/rapid"

	"verifharness/internal/collide"
	"verifharness/internal/model"
	"verifharness/internal/pbt"
	"verifharness/internal/rec"
)

type Op struct {
	K string `json:"k"` // v d report
	F pbt.F  `json:"f,omitempty"`
	D int64  `json:"d,omitempty"`
}

type Case struct {
	Mode      string  `json:"mode"` // plain cached test
	Duration  bool    `json:"duration"`
	SpecNil   bool    `json:"specNil,omitempty"`
	VSpec     []pbt.F `json:"vspec,omitempty"`
	DSpec     []int64 `json:"dspec,omitempty"`
	RootDef   string  `json:"rootDef,omitempty"` // "", "v", "d": root DefaultBuckets option (used when SpecNil)
	RootVSpec []pbt.F `json:"rootVSpec,omitempty"`
	RootDSpec []int64 `json:"rootDSpec,omitempty"`
	Ops       []Op    `json:"ops"`
	// Companion > 0: before the judged histogram is created, another histogram with a DIFFERENT
	// spec that collides with it in the internal bucket cache (internal/collide) is created on a
	// subscope of the same root; the judged histogram must be unaffected
	Companion int `json:"companion,omitempty"`
	// Prefix > 0 (explicit spec of >= 2 bounds): before the judged histogram is created from the
	// caller's table, another histogram is created on a subscope from a PREFIX of that same table
	// (table[:k], same memory - thresholds cut from one table). The table must stay as it was.
	Prefix int `json:"prefix,omitempty"`
	// Caps: what the recording reporter says about itself (rec.CapsOf): advisory only
	Caps int `json:"caps,omitempty"`
}

var boundPool = []float64{0, math.Copysign(0, -1), 1, -1, 0.5, 2, 10, -10, 1e-300, -1e-300, 1e300, -1e300,
	math.MaxFloat64, -math.MaxFloat64, math.SmallestNonzeroFloat64, -math.SmallestNonzeroFloat64, 100, 1000, 0.1, 0.25}

func genBound() *rapid.Generator[pbt.F] {
	return rapid.Custom(func(t *rapid.T) pbt.F {
		switch rapid.IntRange(0, 3).Draw(t, "bk") {
		case 0:
			return pbt.FOf(rapid.SampledFrom(boundPool).Draw(t, "pool"))
		case 1:
			return pbt.FOf(float64(rapid.IntRange(-8, 8).Draw(t, "small")))
		default:
			return pbt.FiniteFloat().Draw(t, "ff")
		}
	})
}

var dPool = []int64{0, 1, -1, math.MaxInt64, math.MinInt64, math.MaxInt64 - 1, math.MinInt64 + 1, int64(time.Millisecond), int64(time.Second), -int64(time.Second), int64(time.Hour)}

func genDBound() *rapid.Generator[int64] {
	return rapid.Custom(func(t *rapid.T) int64 {
		switch rapid.IntRange(0, 3).Draw(t, "dbk") {
		case 0:
			return rapid.SampledFrom(dPool).Draw(t, "pool")
		case 1:
			return int64(rapid.IntRange(-8, 8).Draw(t, "small"))
		default:
			return pbt.AnyInt64().Draw(t, "i")
		}
	})
}

func specLen() *rapid.Generator[int] {
	return rapid.Custom(func(t *rapid.T) int {
		if rapid.IntRange(0, 9).Draw(t, "big") == 0 {
			return rapid.IntRange(9, 64).Draw(t, "n")
		}
		return rapid.IntRange(0, 8).Draw(t, "n")
	})
}

func gen(t *rapid.T) Case {
	c := Case{
		Mode:     rapid.SampledFrom([]string{"plain", "cached", "test"}).Draw(t, "mode"),
		Duration: rapid.Bool().Draw(t, "duration"),
	}
	c.SpecNil = rapid.IntRange(0, 9).Draw(t, "nil") == 0
	n := specLen().Draw(t, "speclen")
	if !c.SpecNil {
		if c.Duration {
			c.DSpec = rapid.SliceOfN(genDBound(), n, n).Draw(t, "dspec")
			if c.DSpec == nil {
				c.DSpec = []int64{}
			}
		} else {
			c.VSpec = rapid.SliceOfN(genBound(), n, n).Draw(t, "vspec")
			if c.VSpec == nil {
				c.VSpec = []pbt.F{}
			}
		}
		// duplicates: repeat some bounds
		if rapid.IntRange(0, 2).Draw(t, "dup") == 0 {
			if c.Duration && len(c.DSpec) > 0 {
				c.DSpec = append(c.DSpec, c.DSpec[rapid.IntRange(0, len(c.DSpec)-1).Draw(t, "dupi")])
			} else if !c.Duration && len(c.VSpec) > 0 {
				c.VSpec = append(c.VSpec, c.VSpec[rapid.IntRange(0, len(c.VSpec)-1).Draw(t, "dupi")])
			}
		}
	} else {
		c.RootDef = rapid.SampledFrom([]string{"", "v", "d"}).Draw(t, "rootdef")
		switch c.RootDef {
		case "v":
			c.RootVSpec = rapid.SliceOfN(genBound(), 1, 5).Draw(t, "rootv")
		case "d":
			c.RootDSpec = rapid.SliceOfN(genDBound(), 1, 5).Draw(t, "rootd")
		}
	}
	// samples
	var vb []float64
	for _, f := range c.VSpec {
		vb = append(vb, f.V())
	}
	for _, f := range c.RootVSpec {
		vb = append(vb, f.V())
	}
	db := append(append([]int64(nil), c.DSpec...), c.RootDSpec...)
	if c.SpecNil && c.RootDef == "" {
		db = append(db, 0, int64(10*time.Millisecond), int64(5*time.Second))
	}
	if rapid.IntRange(0, 2).Draw(t, "companion?") == 0 {
		c.Companion = rapid.IntRange(1, 4).Draw(t, "companion")
	}
	if rapid.IntRange(0, 3).Draw(t, "prefix?") == 0 {
		c.Prefix = rapid.IntRange(1, 6).Draw(t, "prefix")
	}
	c.Caps = rapid.SampledFrom([]int{0, 0, 0, 1, 2, 3}).Draw(t, "caps")
	// at most one stopwatch built from a GIVEN start time (tally.NewStopwatch): D ns before now
	// (negative: in the future), so that the elapsed time, of either sign, lies next to a bound
	swatAt := -1
	if rapid.IntRange(0, 2).Draw(t, "swat?") == 0 {
		swatAt = rapid.IntRange(0, 23).Draw(t, "swatAt")
	}
	nops := rapid.IntRange(1, 24).Draw(t, "nops")
	for i := 0; i < nops; i++ {
		if i == swatAt || (swatAt >= nops && i == nops-1) {
			off := rapid.SampledFrom([]int64{int64(time.Hour), -int64(time.Hour), int64(90 * time.Minute), -int64(90 * time.Minute), int64(time.Second), -int64(time.Second)}).Draw(t, "swatOff")
			if len(db) > 0 && rapid.Bool().Draw(t, "swatNearBound") {
				b := db[rapid.IntRange(0, len(db)-1).Draw(t, "swatB")]
				if b > math.MinInt64/2 && b < math.MaxInt64/2 {
					off = b + rapid.SampledFrom([]int64{int64(time.Second), -int64(time.Second)}).Draw(t, "swatDelta")
				}
			}
			c.Ops = append(c.Ops, Op{K: "swat", D: off})
			swatAt = -1
			continue
		}
		k := rapid.IntRange(0, 12).Draw(t, "opk")
		switch {
		case k == 0:
			c.Ops = append(c.Ops, Op{K: "report"})
		case k == 12:
			// a stopwatch started from the histogram and stopped: an elapsed DURATION, which a value
			// histogram must ignore like any other duration (on duration histograms the op is skipped:
			// the elapsed time is not the harness's to choose; C10 judges those)
			c.Ops = append(c.Ops, Op{K: "sw"})
		case k <= 5:
			var v float64
			sk := rapid.IntRange(0, 5).Draw(t, "vk")
			if len(vb) > 0 && sk <= 2 {
				b := vb[rapid.IntRange(0, len(vb)-1).Draw(t, "bi")]
				switch sk {
				case 0:
					v = b
				case 1:
					v = math.Nextafter(b, math.Inf(1))
				case 2:
					v = math.Nextafter(b, math.Inf(-1))
				}
			} else {
				v = pbt.AnyFloat().Draw(t, "v").V()
			}
			c.Ops = append(c.Ops, Op{K: "v", F: pbt.FOf(v)})
		default:
			var d int64
			sk := rapid.IntRange(0, 5).Draw(t, "dk")
			if len(db) > 0 && sk <= 2 {
				b := db[rapid.IntRange(0, len(db)-1).Draw(t, "bi")]
				switch sk {
				case 0:
					d = b
				case 1:
					d = b + 1
					if b == math.MaxInt64 {
						d = b
					}
				case 2:
					d = b - 1
					if b == math.MinInt64 {
						d = b
					}
				}
			} else {
				d = pbt.AnyInt64().Draw(t, "d")
			}
			c.Ops = append(c.Ops, Op{K: "d", D: d})
		}
	}
	return c
}

func fl(fs []pbt.F) []float64 {
	r := make([]float64, len(fs))
	for i, f := range fs {
		r[i] = f.V()
	}
	return r
}

func du(ds []int64) []time.Duration {
	r := make([]time.Duration, len(ds))
	for i, d := range ds {
		r[i] = time.Duration(d)
	}
	return r
}

var libDefault = []time.Duration{0, 10 * time.Millisecond, 25 * time.Millisecond, 50 * time.Millisecond, 75 * time.Millisecond,
	100 * time.Millisecond, 200 * time.Millisecond, 300 * time.Millisecond, 400 * time.Millisecond, 500 * time.Millisecond,
	600 * time.Millisecond, 800 * time.Millisecond, time.Second, 2 * time.Second, 5 * time.Second}

func run(c Case) (pbt.Outcome, error) {
	var errs pbt.Errs
	var out pbt.Outcome

	// ---- what the histogram should be
	isDur := c.Duration
	var vspec []float64
	var dspec []time.Duration
	var spec tally.Buckets
	altSingle := false // empty non-nil spec: either single bucket or defaults accepted
	var rootDefault tally.Buckets
	switch c.RootDef {
	case "v":
		rootDefault = tally.ValueBuckets(fl(c.RootVSpec))
	case "d":
		rootDefault = tally.DurationBuckets(du(c.RootDSpec))
	}
	if c.SpecNil {
		spec = nil
		rd := c.RootDef
		if c.Mode == "test" {
			rd = "" // a test scope cannot be given root default buckets: library default applies
		}
		switch rd {
		case "v":
			isDur = false
			vspec = fl(c.RootVSpec)
		case "d":
			isDur = true
			dspec = du(c.RootDSpec)
		default:
			isDur = true
			dspec = libDefault
		}
	} else if isDur {
		dspec = du(c.DSpec)
		spec = tally.DurationBuckets(dspec)
		altSingle = len(dspec) == 0
	} else {
		vspec = fl(c.VSpec)
		spec = tally.ValueBuckets(vspec)
		altSingle = len(vspec) == 0
	}
	// keep pristine copies to detect mutation of the caller's slice
	vcopy := append([]float64(nil), vspec...)
	dcopy := append([]time.Duration(nil), dspec...)

	// ---- build scope
	var scope tally.Scope
	var ts tally.TestScope
	var log *rec.Log
	switch c.Mode {
	case "plain":
		r := rec.NewStats()
		r.Caps = rec.CapsOf(c.Caps)
		log = r.L
		scope, _ = tally.NewRootScope(tally.ScopeOptions{Reporter: r, OmitCardinalityMetrics: true, DefaultBuckets: rootDefault}, 0)
	case "cached":
		r := rec.NewCached()
		r.Caps = rec.CapsOf(c.Caps)
		log = r.L
		scope, _ = tally.NewRootScope(tally.ScopeOptions{CachedReporter: r, OmitCardinalityMetrics: true, DefaultBuckets: rootDefault}, 0)
	default:
		ts = tally.NewTestScope("", nil)
		scope = ts
	}
	companion := false
	if c.Companion > 0 && spec != nil {
		if cs := collide.Companions(spec); len(cs) > 0 {
			scope.SubScope("comp").Histogram("other", cs[(c.Companion-1)%len(cs)])
			companion = true
		}
	}
	prefixed := false
	if c.Prefix > 0 && spec != nil {
		switch b := spec.(type) {
		case tally.ValueBuckets:
			if len(b) >= 2 {
				scope.SubScope("pre").Histogram("other", b[:1+(c.Prefix-1)%(len(b)-1)])
				prefixed = true
			}
		case tally.DurationBuckets:
			if len(b) >= 2 {
				scope.SubScope("pre").Histogram("other", b[:1+(c.Prefix-1)%(len(b)-1)])
				prefixed = true
			}
		}
	}
	h := scope.Histogram("h", spec)

	// the expectation comes from the pristine copies: the caller's table itself is under test
	var vpairs []model.VPair
	var dpairs []model.DPair
	if isDur {
		dpairs = model.DurationPairs(dcopy)
	} else {
		vpairs = model.ValuePairs(vcopy)
	}

	// ---- run ops, tracking expectations per upper bound
	wantV := map[uint64]int64{} // upper bound bits -> samples
	wantD := map[time.Duration]int64{}
	var finite, nans int64
	boundary := false
	flexN := 0
	var flexLo, flexHi time.Duration
	nonFiniteHigh := false
	stopwatches := false
	for _, op := range c.Ops {
		switch op.K {
		case "v":
			v := op.F.V()
			h.RecordValue(v)
			if isDur {
				continue
			}
			if hi, ok := model.ValueBucketOf(vpairs, v); ok {
				if math.IsInf(v, -1) {
					hi = vpairs[0].Hi
				}
				wantV[math.Float64bits(hi)]++
				finite++
			} else {
				nans++
			}
			if math.IsNaN(v) || math.IsInf(v, 0) {
				boundary = true
			}
			if math.IsNaN(v) || math.IsInf(v, 1) {
				nonFiniteHigh = true
			}
			for _, b := range vspec {
				if v == b || v == math.Nextafter(b, math.Inf(1)) || v == math.Nextafter(b, math.Inf(-1)) {
					boundary = true
				}
			}
		case "d":
			d := time.Duration(op.D)
			h.RecordDuration(d)
			if !isDur {
				continue
			}
			wantD[model.DurationBucketOf(dpairs, d)]++
			finite++
			for _, b := range dspec {
				if d == b || d == b+1 || d == b-1 {
					boundary = true
				}
			}
		case "sw":
			if !isDur {
				h.Start().Stop()
				stopwatches = true
			}
		case "swat":
			if r, ok := h.(tally.StopwatchRecorder); ok && flexN == 0 {
				t0 := time.Now()
				sw := tally.NewStopwatch(t0.Add(-time.Duration(op.D)), r)
				sw.Stop()
				t1 := time.Now()
				if isDur {
					// elapsed = now - start lies within [D, D + (t1-t0)]
					flexN = 1
					flexLo = model.DurationBucketOf(dpairs, time.Duration(op.D))
					flexHi = model.DurationBucketOf(dpairs, time.Duration(op.D)+t1.Sub(t0))
				}
				stopwatches = true
			}
		case "report":
			if c.Mode != "test" {
				tally.VerifReportOnce(scope)
			}
		}
	}
	if c.Mode != "test" {
		tally.VerifReportOnce(scope)
	}

	// -0 and +0 are the same bound for bucketing purposes: normalise keys
	norm := func(m map[uint64]int64) map[float64]int64 {
		r := map[float64]int64{}
		for k, v := range m {
			r[math.Float64frombits(k)+0] += v
		}
		return r
	}

	// ---- observe
	gotV := map[float64]int64{}
	gotD := map[time.Duration]int64{}
	var total int64
	switch c.Mode {
	case "plain", "cached":
		var allocV []model.VPair
		var allocD []model.DPair
		for _, e := range log.Events() {
			if e.Name != "h" {
				continue // the colliding companion histogram (nothing is recorded on it)
			}
			switch e.Kind {
			case rec.KBucketV:
				allocV = append(allocV, model.VPair{Lo: e.Lo, Hi: e.Hi})
			case rec.KBucketD:
				allocD = append(allocD, model.DPair{Lo: e.DLo, Hi: e.DHi})
			case rec.KHValue:
				if isDur {
					errs.Addf("duration histogram delivered value samples: %v", e)
				}
				if e.I == 0 {
					errs.Addf("zero-sample delivery: %v", e)
				}
				if !inV(vpairs, e.Lo, e.Hi) && !(altSingle && false) {
					errs.Addf("delivered value bucket [%v,%v] is not a pair of the reference tiling %v", e.Lo, e.Hi, vpairs)
				}
				// with duplicated bounds several pairs share one upper bound: the sample belongs to the
				// FIRST of them (the others are empty, (x,x]); only +Inf/NaN may sit in the very last pair
				for _, p := range vpairs {
					if math.Float64bits(p.Hi+0) == math.Float64bits(e.Hi+0) {
						if p.Lo != e.Lo {
							// e's pair is a later one with the same upper bound
							if !(e.Lo == vpairs[len(vpairs)-1].Lo && e.Hi == vpairs[len(vpairs)-1].Hi && nonFiniteHigh) {
								errs.Addf("%d samples delivered in the empty bucket (%v,%v]: the bucket with the smallest upper bound >= the sample is (%v,%v]", e.I, e.Lo, e.Hi, p.Lo, p.Hi)
							}
						}
						break
					}
				}
				gotV[e.Hi+0] += e.I
				total += e.I
			case rec.KHDuration:
				if !isDur {
					errs.Addf("value histogram delivered duration samples: %v", e)
				}
				if e.I == 0 {
					errs.Addf("zero-sample delivery: %v", e)
				}
				if !inD(dpairs, e.DLo, e.DHi) && !altSingleDefaultD(altSingle, e.DLo, e.DHi) {
					errs.Addf("delivered duration bucket [%d,%d] is not a pair of the reference tiling %v", e.DLo, e.DHi, dpairs)
				}
				for _, p := range dpairs {
					if p.Hi == e.DHi {
						if p.Lo != e.DLo {
							errs.Addf("%d samples delivered in the empty bucket (%v,%v]: the bucket with the smallest upper bound >= the sample is (%v,%v]", e.I, e.DLo, e.DHi, p.Lo, p.Hi)
						}
						break
					}
				}
				gotD[e.DHi] += e.I
				total += e.I
			}
		}
		if c.Mode == "cached" {
			if isDur {
				if len(allocV) != 0 {
					errs.Addf("duration histogram allocated value buckets %v", allocV)
				}
				if !(altSingle && tilesD(allocD, model.DurationPairs(libDefault))) && !tilesD(allocD, dpairs) {
					errs.Addf("allocated duration buckets %v do not equal the reference tiling %v", allocD, dpairs)
				}
			} else {
				if len(allocD) != 0 {
					errs.Addf("value histogram allocated duration buckets %v", allocD)
				}
				if !tilesV(allocV, vpairs) {
					errs.Addf("allocated value buckets %v do not equal the reference tiling %v", allocV, vpairs)
				}
			}
		}
	case "test":
		snap := ts.Snapshot().Histograms()
		nh := 0
		for _, hs := range snap {
			if hs.Name() == "h" {
				nh++
			}
		}
		if nh != 1 {
			errs.Addf("snapshot has %d histograms named h, want 1", nh)
		}
		for _, hs := range snap {
			if hs.Name() != "h" {
				continue
			}
			if isDur {
				if hs.Values() != nil && len(hs.Values()) != 0 {
					errs.Addf("duration histogram snapshot has values %v", hs.Values())
				}
				for k, v := range hs.Durations() {
					gotD[k] += v
					total += v
				}
				// every upper bound of the reference tiling must be a key
				for _, p := range dpairs {
					if _, ok := hs.Durations()[p.Hi]; !ok {
						errs.Addf("snapshot lacks upper bound %d", p.Hi)
					}
				}
				if len(hs.Durations()) != distinctD(dpairs) {
					errs.Addf("snapshot has %d duration bounds, want %d", len(hs.Durations()), distinctD(dpairs))
				}
			} else {
				if hs.Durations() != nil && len(hs.Durations()) != 0 {
					errs.Addf("value histogram snapshot has durations %v", hs.Durations())
				}
				for k, v := range hs.Values() {
					gotV[k+0] += v
					total += v
				}
				// every upper bound of the reference tiling must be a key (an empty non-nil spec may
				// mean the single all-covering bucket or the defaults: not judged)
				if !altSingle {
					dv := map[float64]bool{}
					for _, p := range vpairs {
						dv[p.Hi+0] = true
						if _, ok := hs.Values()[p.Hi]; !ok {
							errs.Addf("snapshot lacks the upper bound %v of the reference tiling %v", p.Hi, vpairs)
						}
					}
					if len(hs.Values()) != len(dv) {
						errs.Addf("snapshot has %d value bounds %v, want %d", len(hs.Values()), hs.Values(), len(dv))
					}
				}
			}
		}
	}

	// ---- compare counts
	if isDur && flexN == 1 {
		// the one stopwatch sample: in a bucket whose upper bound lies between those of the two ends
		// of the interval its elapsed time is known to lie in
		placed := false
		for _, p := range dpairs {
			if p.Hi >= flexLo && p.Hi <= flexHi && gotD[p.Hi] == wantD[p.Hi]+1 && !placed {
				wantD[p.Hi]++
				finite++
				placed = true
			}
		}
		if !placed {
			errs.Addf("the sample of a stopwatch whose elapsed time lay in a bucket with upper bound in [%v,%v] was not delivered there (got %v, other samples %v)", flexLo, flexHi, gotD, wantD)
		}
	}
	if isDur {
		for k, w := range wantD {
			if gotD[k] != w {
				errs.Addf("bucket with upper bound %d: %d samples delivered, want %d (all: got %v want %v)", k, gotD[k], w, gotD, wantD)
			}
		}
		for k, g := range gotD {
			if g != 0 && wantD[k] == 0 {
				errs.Addf("bucket with upper bound %d: %d samples delivered, want 0", k, g)
			}
		}
	} else {
		wn := norm(wantV)
		extra := int64(0)
		for k, w := range wn {
			if gotV[k] < w {
				errs.Addf("bucket with upper bound %v: %d samples delivered, want %d (got %v want %v)", k, gotV[k], w, gotV, wn)
			}
			extra += gotV[k] - w
		}
		for k, g := range gotV {
			if _, ok := wn[k]; !ok {
				extra += g
			}
		}
		if extra < 0 || extra > nans {
			errs.Addf("%d samples beyond the finite ones were delivered, but only %d NaNs were recorded (got %v want %v)", extra, nans, gotV, wn)
		}
	}
	if total < finite || total > finite+nans {
		errs.Addf("conservation: %d samples delivered, %d finite + %d NaN recorded", total, finite, nans)
	}
	// caller's slice untouched
	for i := range vcopy {
		if math.Float64bits(vcopy[i]) != math.Float64bits(vspec[i]) {
			errs.Addf("caller's value spec was modified: %v -> %v", vcopy, vspec)
			break
		}
	}
	for i := range dcopy {
		if dcopy[i] != dspec[i] {
			errs.Addf("caller's duration spec was modified")
			break
		}
	}

	out.NonTrivial = boundary || !sort.Float64sAreSorted(vspec) || hasDupV(vspec) || hasDupD(dspec) || !sortedD(dspec)
	out.Classes = append(out.Classes, c.Mode)
	if boundary {
		out.Classes = append(out.Classes, "boundary-sample")
	}
	if nans > 0 {
		out.Classes = append(out.Classes, "nan")
	}
	if hasDupV(vspec) || hasDupD(dspec) {
		out.Classes = append(out.Classes, "dup-bounds")
	}
	if c.SpecNil {
		out.Classes = append(out.Classes, "nil-spec")
	}
	if companion {
		out.Classes = append(out.Classes, "colliding-companion")
	}
	if prefixed {
		out.Classes = append(out.Classes, "prefix-of-shared-table")
	}
	if stopwatches {
		out.Classes = append(out.Classes, "stopwatch-on-value-histogram")
	}
	if altSingle {
		out.Classes = append(out.Classes, "empty-spec")
	}
	return out, errs.Err()
}

func altSingleDefaultD(alt bool, lo, hi time.Duration) bool {
	return alt && inD(model.DurationPairs(libDefault), lo, hi)
}

func inV(ps []model.VPair, lo, hi float64) bool {
	for _, p := range ps {
		if p.Lo == lo && p.Hi == hi {
			return true
		}
	}
	return false
}

func inD(ps []model.DPair, lo, hi time.Duration) bool {
	for _, p := range ps {
		if p.Lo == lo && p.Hi == hi {
			return true
		}
	}
	return false
}

// tilesV: the allocated list, in allocation order, equals the reference
// tiling (values compared with ==, so -0 == +0).
func tilesV(got, want []model.VPair) bool {
	if len(got) != len(want) {
		return false
	}
	for i := range got {
		if got[i].Lo != want[i].Lo || got[i].Hi != want[i].Hi {
			return false
		}
	}
	return true
}

func tilesD(got, want []model.DPair) bool {
	if len(got) != len(want) {
		return false
	}
	for i := range got {
		if got[i] != want[i] {
			return false
		}
	}
	return true
}

func hasDupV(s []float64) bool {
	m := map[float64]bool{}
	for _, v := range s {
		if m[v+0] {
			return true
		}
		m[v+0] = true
	}
	return m[math.MaxFloat64]
}

func hasDupD(s []time.Duration) bool {
	m := map[time.Duration]bool{}
	for _, v := range s {
		if m[v] {
			return true
		}
		m[v] = true
	}
	return m[time.Duration(math.MaxInt64)]
}

func distinctD(ps []model.DPair) int {
	m := map[time.Duration]bool{}
	for _, p := range ps {
		m[p.Hi] = true
	}
	return len(m)
}

func sortedD(s []time.Duration) bool {
	return sort.SliceIsSorted(s, func(i, j int) bool { return s[i] < s[j] })
}

func TestC03(t *testing.T) {
	pbt.Main(t, pbt.Prop[Case]{
		ID: "C03", Name: "bucketing",
		Rule: "rapid-generated histogram cases: value or duration specification of 0..64 finite bounds (hostile constants, negatives, +-0, duplicates, unsorted, +-MaxFloat64 / int64 extremes; nil = scope default incl. a root DefaultBuckets option; empty non-nil), a history of 1..24 RecordValue/RecordDuration calls (samples equal to a bound, one ulp / one ns either side, +-Inf, NaN payloads, extremes, random) interleaved with report passes, observed through a plain reporter, a cached reporter (bucket allocations + ReportSamples) or a test-scope snapshot. Oracle: reference tiling (sorted copy + terminal bucket) and linear-scan bucket choice; per-upper-bound delivered counts == expected, NaN in at most one bucket, conservation, type guard, no panic, caller slice untouched. Non-trivial: a sample on or next to a bound or non-finite, or an unsorted/duplicated spec. Distinct: FNV-64 of the case JSON." + fmt.Sprint(""),
		Gen:  gen, Run: run, HangAfter: 20 * time.Second,
	})
}

func FuzzC03(f *testing.F) {
	pbt.Fuzz(f, pbt.Prop[Case]{ID: "C03", Name: "fuzz", Rule: "native coverage-guided fuzzing (go test -fuzz) of the same generator and oracle: the fuzzer's bytes are rapid's random stream", Gen: gen, Run: run})
}

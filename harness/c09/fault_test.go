package c09

import (
	"fmt"
	"io"
	"testing"
	"time"

	tally "github.com/uber-go/tally/v4"
	"pgregory.net/rapid"

	"verifharness/internal/pbt"
	"verifharness/internal/rec"
)

// FaultCase: a cached reporter's Allocate* is user code that runs inside the scope's first-use
// path, and it may panic (the Prometheus reporter's default error callback does, as the note on
// tally.Scope says). A caller that recovers - an RPC server's recover middleware - goes on using
// the scope API: "all of the scope API, recording and reporting may be used ... without ...
// deadlock", and the identity whose allocation failed is simply not created yet: the next request
// is a first use again, allocates once and delivers.
type FaultCase struct {
	Shards uint  `json:"shards"`
	Ops    []FOp `json:"ops"`
	FailAt []int `json:"failAt"` // 1-based numbers of the Allocate calls that panic
}

type FOp struct {
	K string `json:"k"` // counter gauge timer hist tagged sub pass
	S int    `json:"s"` // scope index (mod the number of scopes so far)
	N int    `json:"n"` // name / tag value index
}

type faultSentinel struct{ n int }

type faulty struct {
	*rec.Cached
	n      int
	failAt map[int]bool
}

func (f *faulty) step() {
	f.n++
	if f.failAt[f.n] {
		panic(faultSentinel{f.n})
	}
}

func (f *faulty) AllocateCounter(name string, tags map[string]string) tally.CachedCount {
	f.step()
	return f.Cached.AllocateCounter(name, tags)
}
func (f *faulty) AllocateGauge(name string, tags map[string]string) tally.CachedGauge {
	f.step()
	return f.Cached.AllocateGauge(name, tags)
}
func (f *faulty) AllocateTimer(name string, tags map[string]string) tally.CachedTimer {
	f.step()
	return f.Cached.AllocateTimer(name, tags)
}
func (f *faulty) AllocateHistogram(name string, tags map[string]string, b tally.Buckets) tally.CachedHistogram {
	f.step()
	return f.Cached.AllocateHistogram(name, tags, b)
}

func genFault(t *rapid.T) FaultCase {
	c := FaultCase{Shards: uint(rapid.SampledFrom([]int{1, 2, 4, 16}).Draw(t, "shards"))}
	n := rapid.IntRange(3, 24).Draw(t, "nops")
	for i := 0; i < n; i++ {
		c.Ops = append(c.Ops, FOp{
			K: rapid.SampledFrom([]string{"counter", "counter", "gauge", "timer", "hist", "counter", "gauge", "timer", "hist", "tagged", "sub", "pass"}).Draw(t, "k"),
			S: rapid.IntRange(0, 5).Draw(t, "s"), N: rapid.IntRange(0, 2).Draw(t, "n")})
	}
	c.FailAt = rapid.SliceOfNDistinct(rapid.IntRange(1, 10), 1, 4, rapid.ID[int]).Draw(t, "failAt")
	return c
}

func runFault(c FaultCase) (pbt.Outcome, error) {
	var errs pbt.Errs
	var out pbt.Outcome
	f := &faulty{Cached: rec.NewCached(), failAt: map[int]bool{}}
	for _, n := range c.FailAt {
		f.failAt[n] = true
	}
	root, closer := tally.VerifNewRootScope(tally.ScopeOptions{CachedReporter: f, OmitCardinalityMetrics: true}, 0, c.Shards)
	type sinfo struct {
		s      tally.Scope
		prefix string
		tags   map[string]string
	}
	scopes := []sinfo{{root, "", map[string]string{}}}
	type mkey struct {
		s    tally.Scope
		kind string
		name string
	}
	created := map[mkey]bool{}
	want := map[string]int64{} // kind|name|tags -> number of records that completed
	faults, afterFault := 0, 0
	for oi, op := range c.Ops {
		si := scopes[op.S%len(scopes)]
		name := fmt.Sprintf("m%d", op.N)
		full := name
		if si.prefix != "" {
			full = si.prefix + "." + name
		}
		switch op.K {
		case "tagged", "sub":
			ns := sinfo{prefix: si.prefix, tags: map[string]string{}}
			for k, v := range si.tags {
				ns.tags[k] = v
			}
			var p interface{}
			if op.K == "tagged" {
				ns.tags["t"] = fmt.Sprint(op.N)
				p = try(func() { ns.s = si.s.Tagged(map[string]string{"t": fmt.Sprint(op.N)}) })
			} else {
				ns.prefix = fmt.Sprintf("p%d", op.N)
				if si.prefix != "" {
					ns.prefix = si.prefix + "." + ns.prefix
				}
				p = try(func() { ns.s = si.s.SubScope(fmt.Sprintf("p%d", op.N)) })
			}
			if p != nil {
				errs.Addf("op %d %s: panic %v", oi, op.K, p)
			} else {
				scopes = append(scopes, ns)
			}
			continue
		case "pass":
			if p := try(func() { tally.VerifReportOnce(root) }); p != nil {
				errs.Addf("op %d: report pass panicked: %v", oi, p)
			}
			continue
		}
		k := mkey{si.s, op.K, name}
		expectPanic := false
		if !created[k] {
			expectPanic = f.failAt[f.n+1]
		}
		before := f.n
		p := try(func() {
			switch op.K {
			case "counter":
				si.s.Counter(name).Inc(1)
			case "gauge":
				si.s.Gauge(name).Update(1)
			case "timer":
				si.s.Timer(name).Record(time.Second)
			case "hist":
				si.s.Histogram(name, tally.ValueBuckets{1, 2}).RecordValue(1)
			}
		})
		if faults > 0 {
			afterFault++
		}
		switch {
		case expectPanic:
			faults++
			if s, ok := p.(faultSentinel); !ok || s.n != before+1 {
				errs.Addf("op %d %s %q: Allocate call %d was made to panic, the request ended with %v", oi, op.K, full, before+1, p)
			}
		case p != nil:
			errs.Addf("op %d %s %q: panic %v", oi, op.K, full, p)
		default:
			if !created[k] && f.n != before+1 {
				errs.Addf("op %d %s %q: first use made %d Allocate calls, want 1", oi, op.K, full, f.n-before)
			}
			if created[k] && f.n != before {
				errs.Addf("op %d %s %q: a repeated request made %d more Allocate calls", oi, op.K, full, f.n-before)
			}
			created[k] = true
			want[op.K+"|"+rec.ID(full, si.tags)]++
		}
		if errs.Failed() {
			break
		}
	}
	if p := try(func() { tally.VerifReportOnce(root) }); p != nil {
		errs.Addf("final report pass panicked: %v", p)
	}
	if cl, ok := closer.(io.Closer); ok {
		if p := try(func() { _ = cl.Close() }); p != nil {
			errs.Addf("Close panicked: %v", p)
		}
	}
	got := map[string]int64{}
	for _, e := range f.L.Events() {
		switch e.Kind {
		case rec.KCounter:
			got["counter|"+rec.ID(e.Name, e.Tags)] += e.I
		case rec.KTimer:
			got["timer|"+rec.ID(e.Name, e.Tags)]++
		case rec.KHValue:
			got["hist|"+rec.ID(e.Name, e.Tags)] += e.I
		case rec.KGauge:
			got["gauge|"+rec.ID(e.Name, e.Tags)] = 1
		}
	}
	for k, w := range want {
		g := got[k]
		if len(k) > 6 && k[:6] == "gauge|" {
			w = 1
		}
		if g != w {
			errs.Addf("%s: delivered %d, want %d (records that completed)", k, g, w)
		}
	}
	for k := range got {
		if _, ok := want[k]; !ok && got[k] != 0 {
			errs.Addf("%s: delivered %d, nothing was recorded there", k, got[k])
		}
	}
	out.NonTrivial = faults > 0 && afterFault >= 2
	if faults > 0 {
		out.Classes = append(out.Classes, "allocate-panicked")
	}
	out.Classes = append(out.Classes, fmt.Sprintf("faults=%d", faults))
	return out, errs.Err()
}

func try(f func()) (p interface{}) {
	defer func() { p = recover() }()
	f()
	return nil
}

func TestFault(t *testing.T) {
	pbt.Main(t, pbt.Prop[FaultCase]{
		ID: "C09", Name: "fault",
		Rule: "rapid-generated sequential histories (3..24 ops: first and repeated use of counters, gauges, timers, histograms with 3 names on up to 6 scopes derived by Tagged/SubScope, report passes; shard count 1/2/4/16) on a root whose cached reporter panics with a sentinel in 1..4 chosen Allocate calls (numbers 1..10); the caller recovers and goes on. Oracle: only those calls panic, with the sentinel; every later call returns (no lock is left held: the case hangs otherwise and is reported after 20 s); a first use makes exactly one Allocate call and a repeated one none, where an identity whose allocation panicked counts as not yet created; after a final pass and Close everything recorded by completed calls is delivered, nothing else. Non-trivial: a fault happened and at least two metric requests followed it. Distinct: FNV-64 of the case JSON.",
		Gen:  genFault, Run: runFault, HangAfter: 20 * time.Second,
	})
}

// C09: concurrent first use creates one metric / scope per identity, without data races.
package c09

import (
	"fmt"
	"io"
	"os"
	"strings"
	"sync"
	"testing"
	"time"

	tally "github.com/uber-go/tally/v4"
	"pgregory.net/rapid"

	"verifharness/internal/pbt"
	"verifharness/internal/rec"
	"verifharness/internal/sched"
	"verifharness/internal/sgen"
)

type Req struct {
	K string `json:"k"` // counter gauge timer histogram child
	N int    `json:"n"` // name index
	S int    `json:"s"` // scope: 0 root, 1 subscope
	D int64  `json:"d,omitempty"`
}

type Case struct {
	Cached   bool    `json:"cached"`
	Both     bool    `json:"both,omitempty"` // a plain AND a cached reporter are configured
	Shards   uint    `json:"shards"`
	Threads  [][]Req `json:"threads"`
	Recorder int     `json:"recorder"` // number of recorder threads on a pre-registered counter
	Pass     int     `json:"pass"`     // number of modelled passes on one ticker thread (0 = none)
	Sched    []int   `json:"sched"`
	// San: the root has a sanitizer (alphanumerics, '_' and '.') and every metric name is requested in a
	// raw spelling the sanitizer rewrites ("c-0" -> "c_0"): the get-or-create paths then probe, re-check
	// and store under the sanitized name
	San bool `json:"san,omitempty"`
	// PreClosed: every child scope the threads may ask for has existed before - it recorded once and
	// was closed - so the concurrent requests are first uses of an identity whose closed predecessor
	// is (unless a pass got there first) still in the registry
	PreClosed bool `json:"preClosed,omitempty"`
}

func genReqs(t *rapid.T, maxOps int) []Req {
	n := rapid.IntRange(1, maxOps).Draw(t, "nreq")
	var out []Req
	for i := 0; i < n; i++ {
		out = append(out, Req{
			K: rapid.SampledFrom([]string{"counter", "counter", "gauge", "timer", "histogram", "child", "child"}).Draw(t, "k"),
			N: rapid.IntRange(0, 1).Draw(t, "n"),
			S: rapid.IntRange(0, 1).Draw(t, "s"),
			D: int64(rapid.IntRange(1, 5).Draw(t, "d")),
		})
	}
	return out
}

func gen(t *rapid.T) Case {
	c := Case{Cached: rapid.Bool().Draw(t, "cached"), Shards: uint(rapid.SampledFrom([]int{1, 1, 2, 4}).Draw(t, "shards"))}
	c.Both = rapid.IntRange(0, 5).Draw(t, "both") == 0
	nt := rapid.IntRange(2, 4).Draw(t, "nthreads")
	// overlapping requests: threads share a common prefix of requests with high probability
	common := genReqs(t, 3)
	for i := 0; i < nt; i++ {
		var reqs []Req
		if rapid.IntRange(0, 3).Draw(t, "shareCommon") != 0 {
			reqs = append(reqs, common...)
		}
		if rapid.Bool().Draw(t, "extra") {
			reqs = append(reqs, genReqs(t, 2)...)
		}
		if len(reqs) == 0 {
			reqs = append(reqs, common[0])
		}
		c.Threads = append(c.Threads, reqs)
	}
	c.San = rapid.IntRange(0, 2).Draw(t, "san") == 0
	c.PreClosed = rapid.IntRange(0, 2).Draw(t, "preClosed") == 0
	c.Recorder = rapid.IntRange(0, 2).Draw(t, "recorders")
	c.Pass = rapid.IntRange(0, 2).Draw(t, "passes")
	c.Sched = sgen.Choices(t, 200, nt+c.Recorder+1)
	return c
}

type world struct {
	san      bool
	mu       sync.Mutex
	ptrs     map[string]map[interface{}]bool // key -> set of distinct objects returned
	counters map[string]int64                // delivered-id -> recorded total
	timers   map[string]int
	hists    map[string]int64
	gauges   map[string]map[float64]bool // delivered-id -> values written by some thread
	dirty    map[string]bool             // delivered-ids of children reached through a tag value the sanitizer rewrites
	preAlloc map[string]bool             // delivered-ids of counters that a closed predecessor scope allocated once already
}

func (w *world) saw(key string, obj interface{}) {
	w.mu.Lock()
	if w.ptrs[key] == nil {
		w.ptrs[key] = map[interface{}]bool{}
	}
	w.ptrs[key][obj] = true
	w.mu.Unlock()
}

func metricName(s int, base string) string {
	if s == 1 {
		return "sub." + base
	}
	return base
}

func doReq(w *world, scopes []tally.Scope, r Req) {
	sc := scopes[r.S]
	switch r.K {
	case "counter":
		n, raw := fmt.Sprintf("c%d", r.N), fmt.Sprintf("c%d", r.N)
		if w.san {
			n, raw = fmt.Sprintf("c_%d", r.N), fmt.Sprintf("c-%d", r.N)
		}
		c := sc.Counter(raw)
		w.saw(fmt.Sprintf("counter/%d/%s", r.S, n), c)
		c.Inc(r.D)
		w.mu.Lock()
		w.counters[metricName(r.S, n)] += r.D
		w.mu.Unlock()
	case "gauge":
		n, raw := fmt.Sprintf("g%d", r.N), fmt.Sprintf("g%d", r.N)
		if w.san {
			n, raw = fmt.Sprintf("g_%d", r.N), fmt.Sprintf("g-%d", r.N)
		}
		g := sc.Gauge(raw)
		w.saw(fmt.Sprintf("gauge/%d/%s", r.S, n), g)
		w.mu.Lock()
		if w.gauges == nil {
			w.gauges = map[string]map[float64]bool{}
		}
		if w.gauges[metricName(r.S, n)] == nil {
			w.gauges[metricName(r.S, n)] = map[float64]bool{}
		}
		w.gauges[metricName(r.S, n)][float64(r.D)] = true
		w.mu.Unlock()
		g.Update(float64(r.D))
	case "timer":
		n, raw := fmt.Sprintf("t%d", r.N), fmt.Sprintf("t%d", r.N)
		if w.san {
			n, raw = fmt.Sprintf("t_%d", r.N), fmt.Sprintf("t-%d", r.N)
		}
		tm := sc.Timer(raw)
		w.saw(fmt.Sprintf("timer/%d/%s", r.S, n), tm)
		tm.Record(time.Duration(r.D))
		w.mu.Lock()
		w.timers[metricName(r.S, n)]++
		w.mu.Unlock()
	case "histogram":
		n, raw := fmt.Sprintf("h%d", r.N), fmt.Sprintf("h%d", r.N)
		if w.san {
			n, raw = fmt.Sprintf("h_%d", r.N), fmt.Sprintf("h-%d", r.N)
		}
		h := sc.Histogram(raw, tally.ValueBuckets{1, 3})
		w.saw(fmt.Sprintf("histogram/%d/%s", r.S, n), h)
		h.RecordValue(float64(r.D))
		w.mu.Lock()
		w.hists[metricName(r.S, n)]++
		w.mu.Unlock()
	case "child":
		n := fmt.Sprintf("k%d", r.N)
		var ch tally.Scope
		if r.N == 0 {
			ch = sc.SubScope(n)
		} else {
			// under the sanitizer the tag value is spelled in a way it rewrites (k-1 -> k_1): the raw and
			// the sanitized registry key then differ and may hash to different registry shards. Sharing
			// one object is promised only for inputs the sanitizer leaves unchanged (C05), so identity
			// and the Allocate count are not judged for these children - delivery totals are.
			raw := n
			if w.san {
				raw, n = fmt.Sprintf("k-%d", r.N), fmt.Sprintf("k_%d", r.N)
				if r.D%2 == 1 {
					raw = n // ... and every other request uses the canonical spelling itself
				}
			}
			tg := map[string]string{"k": raw}
			ch = sc.Tagged(tg)
			pbt.Spoil(tg)
		}
		dirty := w.san && r.N != 0
		if !dirty {
			w.saw(fmt.Sprintf("child/%d/%s", r.S, n), ch)
		}
		c := ch.Counter("cc")
		if !dirty {
			w.saw(fmt.Sprintf("childcounter/%d/%s", r.S, n), c)
		}
		c.Inc(r.D)
		name := "cc"
		if r.N == 0 {
			name = metricName(r.S, n+".cc")
		} else {
			name = metricName(r.S, "cc") + "{k=" + n + "}"
		}
		w.mu.Lock()
		w.counters[name] += r.D
		if dirty {
			if w.dirty == nil {
				w.dirty = map[string]bool{}
			}
			w.dirty[name] = true
		}
		w.mu.Unlock()
	}
}

func deliveredName(e rec.Event) string {
	if v, ok := e.Tags["k"]; ok {
		return e.Name + "{k=" + v + "}"
	}
	return e.Name
}

func judge(errs *pbt.Errs, w *world, events []rec.Event, cached bool) {
	for key, set := range w.ptrs {
		if len(set) != 1 {
			errs.Addf("%s: %d different objects were handed out for one identity", key, len(set))
		}
	}
	gotC := map[string]int64{}
	gotT := map[string]int{}
	gotH := map[string]int64{}
	allocs := map[string]int{}
	lastG := map[string]float64{}
	for _, e := range events {
		switch e.Kind {
		case rec.KGauge:
			if !rec.IsInternal(e.Name) {
				lastG[deliveredName(e)] = e.F
			}
		case rec.KCounter:
			gotC[deliveredName(e)] += e.I
		case rec.KTimer:
			gotT[deliveredName(e)]++
		case rec.KHValue:
			gotH[deliveredName(e)] += e.I
		case rec.KAllocC, rec.KAllocG, rec.KAllocT, rec.KAllocH:
			if !w.dirty[deliveredName(e)] {
				allocs[e.Kind+"/"+deliveredName(e)]++
			}
		}
	}
	for k, n := range allocs {
		if w.preAlloc[strings.TrimPrefix(k, rec.KAllocC+"/")] && strings.HasPrefix(k, rec.KAllocC+"/") {
			n-- // the closed predecessor's allocation
		}
		if n > 1 {
			errs.Addf("%s allocated %d times on the cached reporter", k, n)
		}
	}
	for k, v := range w.counters {
		if gotC[k] != v {
			errs.Addf("counter %s: delivered %d, recorded through the returned handles %d", k, gotC[k], v)
		}
	}
	for k, v := range gotC {
		if _, ok := w.counters[k]; !ok && v != 0 {
			errs.Addf("counter %s: delivered %d, nothing recorded", k, v)
		}
	}
	// every gauge that was updated is delivered, and the most recent delivery is one of the values
	// written (which one is not judged: the updaters are not ordered)
	for k, vals := range w.gauges {
		if v, ok := lastG[k]; !ok {
			errs.Addf("gauge %s was updated (%v) and never delivered", k, vals)
		} else if !vals[v] {
			errs.Addf("gauge %s: most recent delivery is %v, the values written are %v", k, v, vals)
		}
	}
	for k, v := range w.timers {
		if gotT[k] != v {
			errs.Addf("timer %s: %d deliveries, %d records", k, gotT[k], v)
		}
	}
	for k, v := range w.hists {
		if gotH[k] != v {
			errs.Addf("histogram %s: %d samples delivered, %d recorded", k, gotH[k], v)
		}
	}
}

func run(c Case) (pbt.Outcome, error) {
	var errs pbt.Errs
	var out pbt.Outcome
	log := &rec.Log{}
	opts := tally.ScopeOptions{OmitCardinalityMetrics: true}
	if c.Both {
		opts.Reporter, opts.CachedReporter = &rec.Stats{L: log, Child: 1}, &rec.Cached{L: log, Child: 2}
	} else if c.Cached {
		opts.CachedReporter = &rec.Cached{L: log}
	} else {
		opts.Reporter = &rec.Stats{L: log}
	}
	if c.San {
		alnum := []tally.SanitizeRange{{'a', 'z'}, {'A', 'Z'}, {'0', '9'}}
		vc := tally.ValidCharacters{Ranges: alnum, Characters: []rune{'_', '.'}}
		opts.SanitizeOptions = &tally.SanitizeOptions{NameCharacters: vc, KeyCharacters: vc, ValueCharacters: vc, ReplacementCharacter: '_'}
	}
	root, _ := tally.VerifNewRootScope(opts, 0, c.Shards)
	scopes := []tally.Scope{root, root.SubScope("sub")}
	w := &world{san: c.San, ptrs: map[string]map[interface{}]bool{}, counters: map[string]int64{}, timers: map[string]int{}, hists: map[string]int64{}}
	pre := root.Counter("pre")
	if c.PreClosed {
		w.preAlloc = map[string]bool{}
		for si, sc := range scopes {
			for n := 0; n <= 1; n++ {
				var ch tally.Scope
				var name string
				if n == 0 {
					ch, name = sc.SubScope("k0"), metricName(si, "k0.cc")
				} else {
					raw, v := "k1", "k1"
					if c.San {
						// spelled differently from the threads' "k-1": they meet the closed predecessor
						// only under the sanitized key
						raw, v = "k+1", "k_1"
					}
					ch, name = sc.Tagged(map[string]string{"k": raw}), metricName(si, "cc")+"{k="+v+"}"
				}
				ch.Counter("cc").Inc(1)
				w.counters[name]++
				w.preAlloc[name] = true
				if cl, ok := ch.(io.Closer); ok {
					_ = cl.Close()
				}
			}
		}
		out.Classes = append(out.Classes, "children-pre-closed")
	}

	s := sched.New(c.Sched)
	log.OnCall = s.Yield
	tally.VerifSetHooks(&tally.VerifHooks{Yield: s.Yield, Lock: s.Lock})
	defer tally.VerifSetHooks(nil)
	for ti, reqs := range c.Threads {
		reqs := reqs
		s.Go(fmt.Sprintf("user%d", ti), func() {
			for _, r := range reqs {
				doReq(w, scopes, r)
			}
		})
	}
	for ri := 0; ri < c.Recorder; ri++ {
		s.Go(fmt.Sprintf("rec%d", ri), func() {
			for i := 0; i < 3; i++ {
				pre.Inc(1)
				w.mu.Lock()
				w.counters["pre"]++
				w.mu.Unlock()
				s.Yield("harness:after-inc")
			}
		})
	}
	if c.Pass > 0 {
		s.Go("ticker", func() {
			for p := 0; p < c.Pass; p++ {
				tally.VerifReportLoopRun(root)
			}
		})
	}
	res := s.Run()
	lastOptions = res.Options
	tally.VerifSetHooks(nil)
	log.OnCall = nil
	for _, p := range res.Panics {
		errs.Addf("panic in thread %s: %s\n%s", p.Thread, p.Value, p.Stack)
	}
	if res.Deadlock || res.Hang || res.StepLimit {
		if res.Hang {
			errs.Poison() // a thread is still blocked inside the library: stop this process after saving the case
		}
		errs.Addf("deadlock=%v hang=%v steplimit=%v: %s", res.Deadlock, res.Hang, res.StepLimit, res.Detail)
		return out, errs.Err()
	}
	tally.VerifReportOnce(root)
	judge(&errs, w, log.Events(), c.Cached)

	// non-trivial: two threads asked for the same key and a get-or-create window was preempted
	shared := false
	seen := map[string]int{}
	for ti, reqs := range c.Threads {
		for _, r := range reqs {
			k := fmt.Sprintf("%s/%d/%d", r.K, r.S, r.N)
			if prev, ok := seen[k]; ok && prev != ti {
				shared = true
			}
			seen[k] = ti
		}
	}
	win := sched.CountPreempted(res.Trace, "scope.Counter:", "scope.Gauge:", "scope.Timer:", "scope.Histogram:", "registry.Subscope:unlocked", "registry.Subscope:lock", "rep:alloc", "bucketCache.Get:")
	out.NonTrivial = shared && win > 0
	if win > 0 {
		out.Classes = append(out.Classes, "preempted-get-or-create")
	}
	if shared {
		out.Classes = append(out.Classes, "shared-key")
	}
	return out, errs.Err()
}

func TestSched(t *testing.T) {
	pbt.Main(t, pbt.Prop[Case]{
		ID: "C09", Name: "sched",
		Rule: "cooperative-scheduler mode: 2..4 threads perform first-use requests (counter, gauge, timer, histogram, child scope by SubScope or Tagged) over overlapping names (in a third of the cases every child scope has existed before, recorded once and was closed) on the root and one subscope and record through what they get, 0..2 recorder threads increment a pre-registered counter, 0..2 modelled passes run on a ticker thread; shard count 1/2/4; plain/cached; schedule <=200 choices incl. the yield points between the read-lock probe and the write-lock acquisition of every get-or-create path and at the cached reporter's Allocate call. Oracle: one object per (kind,name,scope) and per child identity across threads, Allocate* at most once per identity, delivered totals == totals recorded through any returned handle, no panic, deadlock decided exactly. Non-trivial: two threads requested the same key and a get-or-create window was preempted. Distinct: FNV-64 of program+schedule JSON.",
		Gen:  gen, Run: run, Retries: 20,
	})
}

// ---------------------------------------------------------------- free-running (-race)

type RaceCase struct {
	Cached   bool    `json:"cached"`
	Both     bool    `json:"both,omitempty"` // a plain AND a cached reporter are configured
	Programs [][]Req `json:"programs"`
	Passes   int     `json:"passes"`
	Seed     uint64  `json:"seed"`
	Snapshot bool    `json:"snapshot"`      // another goroutine takes snapshots and asks for the capabilities meanwhile
	San      bool    `json:"san,omitempty"` // sanitizer configured, names in a spelling it rewrites (see Case.San)
	Shards   uint    `json:"shards,omitempty"`
}

func genRace(t *rapid.T) RaceCase {
	c := RaceCase{Cached: rapid.Bool().Draw(t, "cached"), Passes: rapid.IntRange(1, 4).Draw(t, "passes"), Seed: rapid.Uint64().Draw(t, "seed"), Snapshot: rapid.Bool().Draw(t, "snapshot"), San: rapid.IntRange(0, 2).Draw(t, "san") == 0, Both: rapid.IntRange(0, 5).Draw(t, "both") == 0}
	c.Shards = uint(rapid.SampledFrom([]int{0, 0, 1, 2, 4}).Draw(t, "shards"))
	n := rapid.IntRange(8, 16).Draw(t, "ngoroutines")
	common := genReqs(t, 4)
	for i := 0; i < n; i++ {
		reqs := append([]Req(nil), common...)
		reqs = append(reqs, genReqs(t, 3)...)
		c.Programs = append(c.Programs, reqs)
	}
	return c
}

func runRace(c RaceCase) (pbt.Outcome, error) {
	var errs pbt.Errs
	log := &rec.Log{}
	opts := tally.ScopeOptions{OmitCardinalityMetrics: false}
	if c.Both {
		opts.Reporter, opts.CachedReporter = &rec.Stats{L: log, Child: 1}, &rec.Cached{L: log, Child: 2}
	} else if c.Cached {
		opts.CachedReporter = &rec.Cached{L: log}
	} else {
		opts.Reporter = &rec.Stats{L: log}
	}
	if c.San {
		alnum := []tally.SanitizeRange{{'a', 'z'}, {'A', 'Z'}, {'0', '9'}}
		vc := tally.ValidCharacters{Ranges: alnum, Characters: []rune{'_', '.'}}
		opts.SanitizeOptions = &tally.SanitizeOptions{NameCharacters: vc, KeyCharacters: vc, ValueCharacters: vc, ReplacementCharacter: '_'}
	}
	root, _ := tally.VerifNewRootScope(opts, 0, c.Shards)
	scopes := []tally.Scope{root, root.SubScope("sub")}
	w := &world{san: c.San, ptrs: map[string]map[interface{}]bool{}, counters: map[string]int64{}, timers: map[string]int{}, hists: map[string]int64{}}
	f := sched.NewFree(c.Seed)
	tally.VerifSetHooks(&tally.VerifHooks{Yield: f.Yield, Lock: f.Lock})
	defer tally.VerifSetHooks(nil)
	var wg sync.WaitGroup
	start := make(chan struct{})
	for _, reqs := range c.Programs {
		reqs := reqs
		wg.Add(1)
		go func() {
			defer wg.Done()
			<-start
			for _, r := range reqs {
				doReq(w, scopes, r)
			}
		}()
	}
	wg.Add(1)
	go func() {
		defer wg.Done()
		<-start
		for p := 0; p < c.Passes; p++ {
			tally.VerifReportLoopRun(root)
		}
	}()
	if c.Snapshot {
		wg.Add(1)
		go func() {
			defer wg.Done()
			<-start
			for i := 0; i < 20; i++ {
				if ts, ok := root.(interface{ Snapshot() tally.Snapshot }); ok {
					_ = ts.Snapshot().Counters()
				}
				_ = root.Capabilities().Reporting()
				_ = scopes[1].Capabilities().Tagging()
			}
		}()
	}
	close(start)
	wg.Wait()
	tally.VerifSetHooks(nil)
	tally.VerifReportOnce(root)
	judge(&errs, w, log.Events(), c.Cached)
	return pbt.Outcome{NonTrivial: true, Classes: []string{fmt.Sprintf("goroutines=%d", len(c.Programs))}}, errs.Err()
}

func TestRace(t *testing.T) {
	pbt.Main(t, pbt.Prop[RaceCase]{
		ID: "C09", Name: "race",
		Rule: "free-running mode (real parallelism, built with -race, hooks inject seeded Gosched perturbation): 8..16 goroutines run generated first-use/record programs sharing a common prefix of requests on the root and a subscope while another goroutine runs 1..4 report passes (cardinality metrics on) and, in half of the cases, a third takes snapshots and asks for the capabilities; registry shards default/1/2/4; same oracle as the cooperative mode (object identity, Allocate once, conservation, every updated gauge delivered with one of the written values) plus the race detector (a report is a violation; the program is replayable, the schedule is not). Every case is non-trivial (>=8 goroutines with shared keys).",
		Gen:  genRace, Run: runRace,
		// the schedule is not part of the case: a replay (and, after a first failure, every shrink
		// candidate) is run up to Retries times and fails if any run fails
		Retries: 60, HangAfter: 60 * time.Second,
	})
}

// ---------------------------------------------------------------- bounded-exhaustive micro-scenarios

var lastOptions []int

// TestExhaustive enumerates EVERY schedule with at most 6 (quick) / 9 (thorough)
// preemptions of deterministic micro-scenarios: two (and, at a lower bound,
// three) threads making the first use of ONE metric or child scope on the root
// of a single-shard registry (no report pass runs concurrently, so no map
// iteration order is involved), plain and cached.
func TestExhaustive(t *testing.T) {
	prop := pbt.Prop[Case]{
		ID: "C09", Name: "exhaustive",
		Rule: "bounded-exhaustive mode: ALL schedules with at most 6 (quick) / 9 (thorough) preemptions (4 / 7 with three threads) of deterministic micro-scenarios {two or three threads make the first use of the same counter, gauge, timer, histogram, SubScope child or Tagged child on the root of a one-shard registry and record through it; plain and cached; for the child scopes also with a closed predecessor still registered - under its own key or, with a sanitizer, only under the sanitized key - and two preemptions fewer}, enumerated depth-first over the verif yield points and lock probes of the get-or-create paths; same oracle as the generated mode (one object per identity, Allocate at most once, conservation, no panic, exact deadlock). Non-trivial: a get-or-create window was preempted.",
		Run:  run,
	}
	bound := 6
	if os.Getenv("VERIF_TIER") == "thorough" {
		bound = 9
	}
	pbt.MainEnum(t, prop, func(emit func(c Case) bool) bool {
		all := true
		for _, cached := range []bool{false, true} {
			for _, k := range []Req{{K: "counter"}, {K: "gauge"}, {K: "timer"}, {K: "histogram"}, {K: "child", N: 0}, {K: "child", N: 1}} {
				for _, nthreads := range []int{2, 3} {
					base := Case{Cached: cached, Shards: 1}
					for i := 0; i < nthreads; i++ {
						r := k
						r.D = int64(i + 1)
						base.Threads = append(base.Threads, []Req{r})
					}
					b := bound
					if nthreads == 3 {
						b = bound - 2
					}
					_, ex := sched.Enumerate(b, 400000, func(prefix []int) ([]int, bool) {
						c := base
						c.Sched = append([]int(nil), prefix...)
						ok := emit(c)
						return lastOptions, ok
					})
					all = all && ex
					// the same with a closed predecessor of the child still registered - met under its own
					// key, or (sanitizer) only under the sanitized key
					if k.K == "child" && nthreads == 2 {
						for _, san := range []bool{false, true} {
							if san && k.N == 0 {
								continue
							}
							pre := base
							pre.PreClosed, pre.San = true, san
							_, ex := sched.Enumerate(b-2, 400000, func(prefix []int) ([]int, bool) {
								c := pre
								c.Sched = append([]int(nil), prefix...)
								ok := emit(c)
								return lastOptions, ok
							})
							all = all && ex
						}
					}
				}
			}
		}
		return all
	})
}

// C20: bucket constructors are exact and a histogram keeps the bounds it was given.
package c20

import (
	"fmt"
	"math"
	"os"
	"testing"
	"time"

	tally "github.com/uber-go/tally/v4"
	"pgregory.net/rapid"

	"verifharness/internal/collide"
	"verifharness/internal/model"
	"verifharness/internal/pbt"
	"verifharness/internal/rec"
	"verifharness/internal/sched"
	"verifharness/internal/sgen"
)

// ------------------------------------------------------------ constructors

type CtorCase struct {
	Kind   string  `json:"kind"` // linv lind expv expd pairs
	Start  pbt.F   `json:"start"`
	Step   pbt.F   `json:"step"` // width or factor
	DStart int64   `json:"dstart,omitempty"`
	DStep  int64   `json:"dstep,omitempty"`
	N      int     `json:"n"`
	Spec   []pbt.F `json:"spec,omitempty"`  // for pairs
	DSpec  []int64 `json:"dspec,omitempty"` // for pairs
	// Wrap (pairs): the set is handed to BucketPairs inside a Buckets type of the caller's own that
	// embeds it - the caller's slice behind it must stay as it is just the same
	Wrap bool `json:"wrap,omitempty"`
}

func genCtor(t *rapid.T) CtorCase {
	c := CtorCase{Kind: rapid.SampledFrom([]string{"linv", "lind", "expv", "expd", "pairs"}).Draw(t, "kind")}
	nGen := rapid.OneOf(rapid.IntRange(-2, 3), rapid.IntRange(1, 40), rapid.IntRange(100, 200))
	c.N = nGen.Draw(t, "n")
	num := func(label string) float64 {
		switch rapid.IntRange(0, 3).Draw(t, label+"k") {
		case 0:
			return rapid.SampledFrom([]float64{0, 1, -1, 0.5, 1.5, 2, 10, 1e-3, 1e3, -2.5, 0.1, 1.0000001, 0.9999999, 1e-9}).Draw(t, label)
		case 1:
			return float64(rapid.IntRange(-100, 100).Draw(t, label))
		default:
			return rapid.Float64Range(-1e6, 1e6).Draw(t, label)
		}
	}
	switch c.Kind {
	case "linv":
		c.Start, c.Step = pbt.FOf(num("start")), pbt.FOf(num("width"))
	case "lind":
		c.DStart = rapid.Int64Range(-1e12, 1e12).Draw(t, "dstart")
		c.DStep = rapid.Int64Range(-1e12, 1e12).Draw(t, "dwidth")
	case "expv":
		c.Start = pbt.FOf(num("start"))
		c.Step = pbt.FOf(rapid.SampledFrom([]float64{0, 1, -1, 0.5, 1.0000001, 1.5, 2, 3, 10, math.Nextafter(1, 2), 0.9999999}).Draw(t, "factor"))
		if c.N > 60 {
			c.N = 60
		}
		// keep inside float64 range
		if s, f := c.Start.V(), c.Step.V(); s > 0 && f > 1 && float64(c.N)*math.Log(f)+math.Log(s) > 700 {
			c.N = 5
		}
	case "expd":
		c.DStart = rapid.OneOf(rapid.Int64Range(-3, 5), rapid.Int64Range(1, 1e9)).Draw(t, "dstart")
		c.Step = pbt.FOf(rapid.SampledFrom([]float64{0, 1, -1, 0.5, 1.0000001, 1.1, 1.5, 2, 2.5, 3, 10, math.Nextafter(1, 2)}).Draw(t, "factor"))
		if c.N > 40 {
			c.N = 40
		}
		if s, f := float64(c.DStart), c.Step.V(); s > 0 && f > 1 && float64(c.N)*math.Log(f)+math.Log(s) > 42 {
			c.N = 4
		}
	case "pairs":
		if rapid.Bool().Draw(t, "dur") {
			c.DSpec = rapid.SliceOfN(pbt.AnyInt64(), 0, 12).Draw(t, "dspec")
			if c.DSpec == nil {
				c.DSpec = []int64{}
			}
		} else {
			c.Spec = rapid.SliceOfN(pbt.FiniteFloat(), 0, 12).Draw(t, "spec")
		}
		c.Wrap = rapid.IntRange(0, 2).Draw(t, "wrap") == 0
	}
	return c
}

// againV: the Must variant returns the same bounds as the plain one, and a second call is not
// affected by what the caller did to the first result (every call returns memory of its own).
func againV(errs *pbt.Errs, what string, b tally.ValueBuckets, plain, must func() tally.ValueBuckets) {
	orig := append(tally.ValueBuckets(nil), b...)
	same := func(x tally.ValueBuckets) bool {
		if len(x) != len(orig) {
			return false
		}
		for i := range x {
			if math.Float64bits(x[i]) != math.Float64bits(orig[i]) {
				return false
			}
		}
		return true
	}
	if m := must(); !same(m) {
		errs.Addf("MustMake%s returned %v, the plain variant %v", what, m, orig)
	}
	for i := range b {
		b[i] = -12345.5
	}
	if again := plain(); !same(again) {
		errs.Addf("%s: after the caller overwrote the first result a second call with the same arguments returned %v, first %v", what, again, orig)
	}
}

func againD(errs *pbt.Errs, what string, b tally.DurationBuckets, plain, must func() tally.DurationBuckets) {
	orig := append(tally.DurationBuckets(nil), b...)
	same := func(x tally.DurationBuckets) bool {
		if len(x) != len(orig) {
			return false
		}
		for i := range x {
			if x[i] != orig[i] {
				return false
			}
		}
		return true
	}
	if m := must(); !same(m) {
		errs.Addf("MustMake%s returned %v, the plain variant %v", what, m, orig)
	}
	for i := range b {
		b[i] = -12345
	}
	if again := plain(); !same(again) {
		errs.Addf("%s: after the caller overwrote the first result a second call with the same arguments returned %v, first %v", what, again, orig)
	}
}

func panics(f func()) (p bool) {
	defer func() {
		if recover() != nil {
			p = true
		}
	}()
	f()
	return false
}

func closeF(got, want float64, i int) bool {
	if got == want {
		return true
	}
	return math.Abs(got-want) <= 1e-9*math.Max(math.Abs(got), math.Abs(want))+1e-300
}

func runCtor(c CtorCase) (pbt.Outcome, error) {
	var errs pbt.Errs
	var out pbt.Outcome
	n := c.N
	switch c.Kind {
	case "linv":
		start, width := c.Start.V(), c.Step.V()
		b, err := tally.LinearValueBuckets(start, width, n)
		wantErr := n <= 0
		if (err != nil) != wantErr {
			errs.Addf("LinearValueBuckets(%v,%v,%d): err=%v, want error=%v", start, width, n, err, wantErr)
		}
		if p := panics(func() { tally.MustMakeLinearValueBuckets(start, width, n) }); p != (err != nil) {
			errs.Addf("MustMakeLinearValueBuckets(%v,%v,%d) panicked=%v but plain variant err=%v", start, width, n, p, err)
		}
		if err == nil {
			if len(b) != n {
				errs.Addf("LinearValueBuckets(%v,%v,%d) returned %d bounds", start, width, n, len(b))
			}
			iter := start
			for i := range b {
				closed := start + float64(i)*width
				if !(b[i] == closed || b[i] == iter || closeF(b[i], closed, i)) {
					errs.Addf("LinearValueBuckets(%v,%v,%d)[%d] = %v, want %v", start, width, n, i, b[i], closed)
					break
				}
				iter += width
			}
			if len(b) > 0 && b[0] != start {
				errs.Addf("first bound %v != start %v", b[0], start)
			}
			againV(&errs, "LinearValueBuckets", b, func() tally.ValueBuckets { r, _ := tally.LinearValueBuckets(start, width, n); return r },
				func() tally.ValueBuckets { return tally.MustMakeLinearValueBuckets(start, width, n) })
			out.NonTrivial = n >= 2
		} else {
			out.NonTrivial = true
		}
	case "lind":
		start, width := time.Duration(c.DStart), time.Duration(c.DStep)
		b, err := tally.LinearDurationBuckets(start, width, n)
		wantErr := n <= 0
		if (err != nil) != wantErr {
			errs.Addf("LinearDurationBuckets(%v,%v,%d): err=%v, want error=%v", start, width, n, err, wantErr)
		}
		if p := panics(func() { tally.MustMakeLinearDurationBuckets(start, width, n) }); p != (err != nil) {
			errs.Addf("MustMakeLinearDurationBuckets panicked=%v but err=%v", p, err)
		}
		if err == nil {
			if len(b) != n {
				errs.Addf("LinearDurationBuckets(%v,%v,%d) returned %d bounds", start, width, n, len(b))
			}
			for i := range b {
				if b[i] != start+time.Duration(i)*width {
					errs.Addf("LinearDurationBuckets(%d,%d,%d)[%d] = %d, want %d", start, width, n, i, b[i], start+time.Duration(i)*width)
					break
				}
			}
			againD(&errs, "LinearDurationBuckets", b, func() tally.DurationBuckets { r, _ := tally.LinearDurationBuckets(start, width, n); return r },
				func() tally.DurationBuckets { return tally.MustMakeLinearDurationBuckets(start, width, n) })
			out.NonTrivial = n >= 2
		} else {
			out.NonTrivial = true
		}
	case "expv":
		start, factor := c.Start.V(), c.Step.V()
		b, err := tally.ExponentialValueBuckets(start, factor, n)
		wantErr := n <= 0 || start <= 0 || factor <= 1
		if (err != nil) != wantErr {
			errs.Addf("ExponentialValueBuckets(%v,%v,%d): err=%v, want error=%v", start, factor, n, err, wantErr)
		}
		if p := panics(func() { tally.MustMakeExponentialValueBuckets(start, factor, n) }); p != (err != nil) {
			errs.Addf("MustMakeExponentialValueBuckets(%v,%v,%d) panicked=%v but err=%v", start, factor, n, p, err)
		}
		if err == nil {
			if len(b) != n {
				errs.Addf("ExponentialValueBuckets(%v,%v,%d) returned %d bounds", start, factor, n, len(b))
			}
			iter := start
			for i := range b {
				closed := start * math.Pow(factor, float64(i))
				if !(b[i] == iter || closeF(b[i], closed, i)) {
					errs.Addf("ExponentialValueBuckets(%v,%v,%d)[%d] = %v, want %v (iterated) or %v (closed form)", start, factor, n, i, b[i], iter, closed)
					break
				}
				iter *= factor
			}
			if len(b) > 0 && b[0] != start {
				errs.Addf("first bound %v != start %v", b[0], start)
			}
			againV(&errs, "ExponentialValueBuckets", b, func() tally.ValueBuckets { r, _ := tally.ExponentialValueBuckets(start, factor, n); return r },
				func() tally.ValueBuckets { return tally.MustMakeExponentialValueBuckets(start, factor, n) })
			out.NonTrivial = n >= 2
		} else {
			out.NonTrivial = true
		}
	case "expd":
		start, factor := time.Duration(c.DStart), c.Step.V()
		b, err := tally.ExponentialDurationBuckets(start, factor, n)
		wantErr := n <= 0 || start <= 0 || factor <= 1
		if (err != nil) != wantErr {
			errs.Addf("ExponentialDurationBuckets(%v,%v,%d): err=%v, want error=%v", start, factor, n, err, wantErr)
		}
		if p := panics(func() { tally.MustMakeExponentialDurationBuckets(start, factor, n) }); p != (err != nil) {
			errs.Addf("MustMakeExponentialDurationBuckets panicked=%v but err=%v", p, err)
		}
		if err == nil {
			if len(b) != n {
				errs.Addf("ExponentialDurationBuckets(%v,%v,%d) returned %d bounds", start, factor, n, len(b))
			}
			iter := start
			for i := range b {
				closed := float64(start) * math.Pow(factor, float64(i))
				tol := 1e-9*closed + float64(i) + 1
				if !(b[i] == iter || math.Abs(float64(b[i])-closed) <= tol) {
					errs.Addf("ExponentialDurationBuckets(%d,%v,%d)[%d] = %d, want %d (iterated, truncating) or ~%v", start, factor, n, i, b[i], iter, closed)
					break
				}
				iter = time.Duration(float64(iter) * factor)
			}
			if len(b) > 0 && b[0] != start {
				errs.Addf("first bound %v != start %v", b[0], start)
			}
			againD(&errs, "ExponentialDurationBuckets", b, func() tally.DurationBuckets { r, _ := tally.ExponentialDurationBuckets(start, factor, n); return r },
				func() tally.DurationBuckets { return tally.MustMakeExponentialDurationBuckets(start, factor, n) })
			out.NonTrivial = n >= 2
		} else {
			out.NonTrivial = true
		}
	case "pairs":
		if c.DSpec != nil {
			// the slice has 0..2 spare slots behind it (holding -7), which belong to the caller as well
			spec := make(tally.DurationBuckets, len(c.DSpec), len(c.DSpec)+len(c.DSpec)%3)
			for i, d := range c.DSpec {
				spec[i] = time.Duration(d)
			}
			for i := len(spec); i < cap(spec); i++ {
				spec[:cap(spec)][i] = -7
			}
			before := append(tally.DurationBuckets(nil), spec[:cap(spec)]...)
			var arg tally.Buckets = spec
			if c.Wrap {
				arg = wrapBuckets{spec}
			}
			pairs := tally.BucketPairs(arg)
			for i := range before {
				if before[i] != spec[:cap(spec)][i] {
					errs.Addf("BucketPairs modified the caller's duration slice (or the spare capacity behind it): %v -> %v", before, spec[:cap(spec)])
					break
				}
			}
			before = before[:len(spec)]
			want := model.DurationPairs(before)
			if c.Wrap {
				// a type of the caller's own is not a DurationBuckets: its pairs are value pairs; only the
				// ownership of the slice is judged
			} else if len(pairs) != len(want) {
				errs.Addf("BucketPairs(%v): %d pairs, want %d", before, len(pairs), len(want))
			} else {
				for i, p := range pairs {
					if p.LowerBoundDuration() != want[i].Lo || p.UpperBoundDuration() != want[i].Hi {
						errs.Addf("BucketPairs(%v)[%d] = [%d,%d], want [%d,%d]", before, i, p.LowerBoundDuration(), p.UpperBoundDuration(), want[i].Lo, want[i].Hi)
						break
					}
				}
			}
			out.NonTrivial = len(spec) >= 2
		} else {
			spec := make(tally.ValueBuckets, len(c.Spec), len(c.Spec)+len(c.Spec)%3)
			for i, f := range c.Spec {
				spec[i] = f.V()
			}
			for i := len(spec); i < cap(spec); i++ {
				spec[:cap(spec)][i] = -7.25
			}
			before := append(tally.ValueBuckets(nil), spec[:cap(spec)]...)
			var arg tally.Buckets = spec
			if c.Wrap {
				arg = wrapBuckets{spec}
			}
			pairs := tally.BucketPairs(arg)
			for i := range before {
				if math.Float64bits(before[i]) != math.Float64bits(spec[:cap(spec)][i]) {
					errs.Addf("BucketPairs modified the caller's value slice (or the spare capacity behind it): %v -> %v", before, spec[:cap(spec)])
					break
				}
			}
			before = before[:len(spec)]
			want := model.ValuePairs(before)
			if len(pairs) != len(want) {
				errs.Addf("BucketPairs(%v): %d pairs, want %d", before, len(pairs), len(want))
			} else {
				for i, p := range pairs {
					if p.LowerBoundValue() != want[i].Lo || p.UpperBoundValue() != want[i].Hi {
						errs.Addf("BucketPairs(%v)[%d] = [%v,%v], want [%v,%v]", before, i, p.LowerBoundValue(), p.UpperBoundValue(), want[i].Lo, want[i].Hi)
						break
					}
				}
			}
			out.NonTrivial = len(spec) >= 2
		}
	}
	out.Classes = []string{c.Kind}
	return out, errs.Err()
}

func TestCtor(t *testing.T) {
	pbt.Main(t, pbt.Prop[CtorCase]{
		ID: "C20", Name: "ctor",
		Rule: "rapid-generated constructor calls: Linear/Exponential Value/Duration buckets with n in -2..200, starts/widths/factors incl. the rejection boundaries (0, 1, next-after-1, negatives) and results kept inside the numeric range; BucketPairs on 0..12 arbitrary finite bounds. Oracle: n bounds, b0=start, recurrence (exact iterated value or closed form within 1e-9 relative, durations +i ns), errors exactly for n<=0 / start<=0 / factor<=1, Must* panics iff error, caller slice unchanged, pairs equal the reference tiling. Non-trivial: n>=2 or a rejected argument tuple. Distinct: FNV-64 of the case JSON.",
		Gen:  genCtor, Run: runCtor, HangAfter: 20 * time.Second,
	})
}

// ------------------------------------------------------------ bucket cache

type HSpec struct {
	Dur  bool    `json:"dur,omitempty"`
	V    []pbt.F `json:"v,omitempty"`
	D    []int64 `json:"d,omitempty"`
	Sub  int     `json:"sub"`  // which scope under the root creates it
	Samp []pbt.F `json:"samp"` // samples (durations: truncated)
	// UseDefault: created with a nil bucket argument; the bounds are then those of the root's
	// DefaultBuckets option (CacheCase.Default), of the kind they were given in
	UseDefault bool `json:"useDefault,omitempty"`
	// Custom: the set is handed over inside a user-defined type that implements tally.Buckets (a
	// wrapper carrying a unit, say). The library may refuse such a type (it panics on the unchanged
	// tree: the histogram is then skipped); if it accepts it, the histogram has the bounds it was
	// created with like any other
	Custom bool `json:"custom,omitempty"`
}

// wrapBuckets is a Buckets implementation of the harness's own.
type wrapBuckets struct{ tally.Buckets }

type CacheCase struct {
	Cached bool    `json:"cached"`
	Hists  []HSpec `json:"hists"`
	// Default (optional, non-empty): the root's ScopeOptions.DefaultBuckets
	Default *HSpec `json:"default,omitempty"`
	// Layout: where the bucket slices handed to Histogram() live. 0: each in its own exactly-sized
	// slice; 1: consecutive pieces of one array per kind, each with capacity up to the array's end
	// (fine[:5] next to the rest of fine: writing one element past a slice's length lands in the
	// next histogram's bounds); 2: each in its own slice with three spare slots holding other numbers
	// 3: ONE buffer per kind, refilled for every creation and overwritten right after the samples
	// of that histogram were recorded (a caller that builds its bucket sets in a scratch buffer):
	// a histogram keeps the bounds - and the specification reported with them - it was created with
	Layout int `json:"layout,omitempty"`
}

// materialize builds all bucket slices up front (before any Histogram call) according to the layout
// and returns them together with the arenas whose whole capacity must stay untouched.
func (c CacheCase) materialize() (specs []tally.Buckets, arenaV []float64, arenaD []time.Duration) {
	if c.Layout == 0 || c.Layout == 3 {
		for _, h := range c.Hists {
			specs = append(specs, h.buckets())
		}
		return
	}
	nv, nd := 8, 8
	for _, h := range c.Hists {
		nv += len(h.V) + 3
		nd += len(h.D) + 3
	}
	arenaV, arenaD = make([]float64, nv), make([]time.Duration, nd)
	for i := range arenaV {
		arenaV[i] = -7.25
	}
	for i := range arenaD {
		arenaD[i] = -7
	}
	av, ad := 0, 0
	for _, h := range c.Hists {
		if h.Dur {
			sl := arenaD[ad : ad+len(h.D)]
			for i, x := range h.D {
				sl[i] = time.Duration(x)
			}
			ad += len(h.D)
			if c.Layout == 2 {
				sl = sl[: len(sl) : len(sl)+3]
				ad += 3
			}
			specs = append(specs, tally.DurationBuckets(sl))
		} else {
			sl := arenaV[av : av+len(h.V)]
			for i, x := range h.V {
				sl[i] = x.V()
			}
			av += len(h.V)
			if c.Layout == 2 {
				sl = sl[: len(sl) : len(sl)+3]
				av += 3
			}
			specs = append(specs, tally.ValueBuckets(sl))
		}
	}
	return
}

func genCache(t *rapid.T) CacheCase {
	c := CacheCase{Cached: rapid.Bool().Draw(t, "cached"), Layout: rapid.SampledFrom([]int{0, 0, 1, 1, 2, 3}).Draw(t, "layout")}
	// base set
	nb := rapid.IntRange(1, 5).Draw(t, "nbase")
	base := make([]uint64, nb) // bit patterns / nanoseconds
	for i := range base {
		switch rapid.IntRange(0, 2).Draw(t, "basek") {
		case 0:
			base[i] = math.Float64bits(float64(rapid.IntRange(1, 9).Draw(t, "small")))
		case 1:
			base[i] = uint64(rapid.IntRange(1, 1000).Draw(t, "ns"))
		default:
			base[i] = math.Float64bits(rapid.Float64Range(-1000, 1000).Draw(t, "f"))
		}
	}
	// in a quarter of the cases the base is an arithmetic progression of bit patterns: then multisets
	// with REPEATED elements of the base have the same length and the same sum ({x-d,x,x+d} ~ {x,x,x},
	// {x,x+d,x+2d,x+3d} ~ {x,x,x+3d,x+3d}) without being permutations of it
	ap := rapid.IntRange(0, 3).Draw(t, "ap") == 0
	if ap {
		x := math.Float64bits(float64(rapid.IntRange(1, 9).Draw(t, "apx")))
		if rapid.Bool().Draw(t, "apns") {
			x = uint64(rapid.IntRange(1000, 5000).Draw(t, "apxns"))
		}
		d := uint64(rapid.IntRange(1, 64).Draw(t, "apd"))
		n := rapid.IntRange(3, 4).Draw(t, "apn")
		base = base[:0]
		for i := 0; i < n; i++ {
			base = append(base, x+uint64(i)*d)
		}
	}
	nh := rapid.IntRange(2, 6).Draw(t, "nh")
	for h := 0; h < nh; h++ {
		bits := append([]uint64(nil), base...)
		variant := rapid.IntRange(0, 5).Draw(t, "variant")
		if ap && rapid.Bool().Draw(t, "apvariant") {
			variant = 6
		}
		if rapid.IntRange(0, 7).Draw(t, "zeroid") == 0 {
			variant = 7
		}
		switch variant {
		case 7: // a NON-empty set with the cache identity of the empty set (0): {x} or {a, x-a}
			x := collide.ZeroSum()
			bits = []uint64{x}
			if rapid.Bool().Draw(t, "zerotwo") {
				a := base[0]
				bits = []uint64{a, x - a}
			}
		case 6: // same length, same sum, every element a member of the base, repeated elements
			if len(bits) == 3 {
				bits = []uint64{bits[1], bits[1], bits[1]}
			} else if len(bits) == 4 {
				bits = []uint64{bits[0], bits[0], bits[3], bits[3]}
			}
		case 0: // identical
		case 1: // permutation
			bits = rapid.Permutation(bits).Draw(t, "perm")
		case 2: // equal-sum perturbation (a+d, b-d)
			if len(bits) >= 2 {
				d := uint64(rapid.IntRange(1, 64).Draw(t, "delta"))
				i := rapid.IntRange(0, len(bits)-2).Draw(t, "pi")
				bits[i] += d
				bits[i+1] -= d
			}
		case 3: // merge two into one that keeps the sum? (different length, same sum is impossible with the seed-less fold... keep: drop one and add it to another)
			if len(bits) >= 2 {
				bits[0] += bits[len(bits)-1]
				bits = bits[:len(bits)-1]
			}
		case 4: // fresh unrelated
			bits = []uint64{math.Float64bits(float64(rapid.IntRange(-5, 5).Draw(t, "fresh")))}
		case 5: // duplicate an element and compensate
			if len(bits) >= 2 {
				bits[1] = bits[0]
			}
		}
		hs := HSpec{Dur: rapid.Bool().Draw(t, "dur"), Sub: rapid.IntRange(0, 2).Draw(t, "sub"), Custom: rapid.IntRange(0, 9).Draw(t, "custom") == 0}
		if variant == 7 {
			for _, b := range bits {
				if f := math.Float64frombits(b); math.IsNaN(f) || math.IsInf(f, 0) {
					hs.Dur = true // the value reading of these bits is not a finite bound
				}
			}
		}
		for _, b := range bits {
			if hs.Dur {
				hs.D = append(hs.D, int64(b))
			} else {
				f := math.Float64frombits(b)
				if math.IsNaN(f) || math.IsInf(f, 0) {
					f = 1
				}
				hs.V = append(hs.V, pbt.FOf(f))
			}
		}
		ns := rapid.IntRange(1, 4).Draw(t, "nsamp")
		for i := 0; i < ns; i++ {
			b := bits[rapid.IntRange(0, len(bits)-1).Draw(t, "sb")]
			if hs.Dur {
				hs.Samp = append(hs.Samp, pbt.F(b+uint64(rapid.IntRange(-1, 1).Draw(t, "off"))))
			} else {
				f := math.Float64frombits(b)
				if math.IsNaN(f) || math.IsInf(f, 0) {
					f = 1
				}
				hs.Samp = append(hs.Samp, pbt.FOf(f))
			}
		}
		c.Hists = append(c.Hists, hs)
	}
	if rapid.IntRange(0, 3).Draw(t, "default?") == 0 {
		// the root gets one of the generated sets as its default; some histograms are created with nil
		src := c.Hists[rapid.IntRange(0, len(c.Hists)-1).Draw(t, "defaultOf")]
		if len(src.V)+len(src.D) > 0 {
			c.Default = &HSpec{Dur: src.Dur, V: src.V, D: src.D}
			for i := range c.Hists {
				if rapid.IntRange(0, 2).Draw(t, "useDefault") == 0 {
					c.Hists[i].UseDefault = true
					c.Hists[i].Dur, c.Hists[i].V, c.Hists[i].D = src.Dur, src.V, src.D
					c.Hists[i].Samp = src.Samp
				}
			}
		}
	}
	return c
}

func identity(h HSpec) uint64 {
	acc := uint64(23)
	if h.Dur {
		for _, d := range h.D {
			acc += uint64(d) * 31
		}
	} else {
		for _, f := range h.V {
			acc += uint64(f) * 31
		}
	}
	return acc
}

// sameFloats compares two value specs as numbers, element by element: -0 and +0 are the same
// bound (the first version compared the printed forms and raised a false alarm when a histogram
// created with [0 -0 1] was handed the equal spec [-0 0 1] of an earlier histogram).
func sameFloats(a, b []float64) bool {
	if len(a) != len(b) {
		return false
	}
	for i := range a {
		if a[i] != b[i] {
			return false
		}
	}
	return true
}

func sameSpec(a, b HSpec) bool {
	if a.Dur != b.Dur || len(a.V) != len(b.V) || len(a.D) != len(b.D) {
		return false
	}
	for i := range a.V {
		if a.V[i] != b.V[i] {
			return false
		}
	}
	for i := range a.D {
		if a.D[i] != b.D[i] {
			return false
		}
	}
	return true
}

// checkHist judges the events delivered under name against the histogram's own spec.
func checkHist(errs *pbt.Errs, name string, h HSpec, events []rec.Event, cached bool) {
	var vs []float64
	var ds []time.Duration
	for _, f := range h.V {
		vs = append(vs, f.V())
	}
	for _, d := range h.D {
		ds = append(ds, time.Duration(d))
	}
	vp := model.ValuePairs(vs)
	dp := model.DurationPairs(ds)
	wantV := map[float64]int64{}
	wantD := map[time.Duration]int64{}
	for _, s := range h.Samp {
		if h.Dur {
			wantD[model.DurationBucketOf(dp, time.Duration(int64(s)))]++
		} else {
			hi, _ := model.ValueBucketOf(vp, s.V())
			wantV[hi+0]++
		}
	}
	gotV := map[float64]int64{}
	gotD := map[time.Duration]int64{}
	var allocV []model.VPair
	var allocD []model.DPair
	for _, e := range events {
		if e.Name != name {
			continue
		}
		switch e.Kind {
		case rec.KBucketV:
			allocV = append(allocV, model.VPair{Lo: e.Lo, Hi: e.Hi})
		case rec.KBucketD:
			allocD = append(allocD, model.DPair{Lo: e.DLo, Hi: e.DHi})
		case rec.KHValue:
			if h.Dur {
				errs.Addf("%s: duration histogram delivered value samples %v", name, e)
				continue
			}
			ok := false
			for _, p := range vp {
				if p.Lo == e.Lo && p.Hi == e.Hi {
					ok = true
				}
			}
			if !ok {
				errs.Addf("%s: delivered bucket [%v,%v] is not in the tiling of its own spec %v", name, e.Lo, e.Hi, vs)
			}
			gotV[e.Hi+0] += e.I
		case rec.KHDuration:
			if !h.Dur {
				errs.Addf("%s: value histogram delivered duration samples %v", name, e)
				continue
			}
			ok := false
			for _, p := range dp {
				if p.Lo == e.DLo && p.Hi == e.DHi {
					ok = true
				}
			}
			if !ok {
				errs.Addf("%s: delivered bucket [%d,%d] is not in the tiling of its own spec %v", name, e.DLo, e.DHi, ds)
			}
			gotD[e.DHi] += e.I
		}
		if e.Spec != nil && (e.Kind == rec.KHValue || e.Kind == rec.KHDuration || e.Kind == rec.KAllocH) {
			if h.Dur {
				sd, ok := e.Spec.(tally.DurationBuckets)
				if !ok || fmt.Sprint([]time.Duration(sd)) != fmt.Sprint(ds) {
					errs.Addf("%s: specification handed to the reporter is %v, histogram was created with %v", name, e.Spec, ds)
				}
			} else {
				sv, ok := e.Spec.(tally.ValueBuckets)
				if !ok || !sameFloats([]float64(sv), vs) {
					errs.Addf("%s: specification handed to the reporter is %v, histogram was created with %v", name, e.Spec, vs)
				}
			}
		}
	}
	if fmt.Sprint(gotV) != fmt.Sprint(wantV) && !h.Dur {
		errs.Addf("%s: per-bound counts %v, want %v (spec %v)", name, gotV, wantV, vs)
	}
	if fmt.Sprint(gotD) != fmt.Sprint(wantD) && h.Dur {
		errs.Addf("%s: per-bound counts %v, want %v (spec %v)", name, gotD, wantD, ds)
	}
	if cached {
		if h.Dur {
			if len(allocD) != len(dp) {
				errs.Addf("%s: %d duration buckets allocated, want %d: %v vs %v", name, len(allocD), len(dp), allocD, dp)
			} else {
				for i := range dp {
					if allocD[i] != dp[i] {
						errs.Addf("%s: allocated bucket %d = %v, want %v", name, i, allocD[i], dp[i])
						break
					}
				}
			}
		} else {
			if len(allocV) != len(vp) {
				errs.Addf("%s: %d value buckets allocated, want %d: %v vs %v", name, len(allocV), len(vp), allocV, vp)
			} else {
				for i := range vp {
					if allocV[i].Lo != vp[i].Lo || allocV[i].Hi != vp[i].Hi {
						errs.Addf("%s: allocated bucket %d = %v, want %v", name, i, allocV[i], vp[i])
						break
					}
				}
			}
		}
	}
}

func (h HSpec) buckets() tally.Buckets {
	if h.Dur {
		d := make(tally.DurationBuckets, len(h.D))
		for i, x := range h.D {
			d[i] = time.Duration(x)
		}
		return d
	}
	v := make(tally.ValueBuckets, len(h.V))
	for i, x := range h.V {
		v[i] = x.V()
	}
	return v
}

func runCache(c CacheCase) (pbt.Outcome, error) {
	var errs pbt.Errs
	var out pbt.Outcome
	var log *rec.Log
	var root tally.Scope
	var def tally.Buckets
	if c.Default != nil {
		def = c.Default.buckets()
	}
	if c.Cached {
		r := rec.NewCached()
		log = r.L
		root, _ = tally.NewRootScope(tally.ScopeOptions{CachedReporter: r, OmitCardinalityMetrics: true, DefaultBuckets: def}, 0)
	} else {
		r := rec.NewStats()
		log = r.L
		root, _ = tally.NewRootScope(tally.ScopeOptions{Reporter: r, OmitCardinalityMetrics: true, DefaultBuckets: def}, 0)
	}
	scopes := []tally.Scope{root, root.SubScope("s1"), root.Tagged(map[string]string{"t": "1"})}
	prefixes := []string{"", "s1.", ""}
	names := make([]string, len(c.Hists))
	rejected := make([]bool, len(c.Hists))
	specs, arenaV, arenaD := c.materialize()
	arenaV0, arenaD0 := append([]float64(nil), arenaV...), append([]time.Duration(nil), arenaD...)
	var bufV []float64
	var bufD []time.Duration
	if c.Layout == 3 {
		bufV, bufD = make([]float64, 16), make([]time.Duration, 16)
	}
	for i, h := range c.Hists {
		spec := specs[i]
		if c.Layout == 3 && len(h.V) <= len(bufV) && len(h.D) <= len(bufD) {
			if h.Dur {
				sl := bufD[:len(h.D)]
				copy(sl, spec.(tally.DurationBuckets))
				spec = tally.DurationBuckets(sl)
			} else {
				sl := bufV[:len(h.V)]
				copy(sl, spec.(tally.ValueBuckets))
				spec = tally.ValueBuckets(sl)
			}
		}
		var before tally.Buckets
		if h.Dur {
			before = append(tally.DurationBuckets(nil), spec.(tally.DurationBuckets)...)
		} else {
			before = append(tally.ValueBuckets(nil), spec.(tally.ValueBuckets)...)
		}
		n := fmt.Sprintf("h%d", i)
		names[i] = prefixes[h.Sub] + n
		arg := spec
		if h.UseDefault && c.Default != nil {
			arg = nil // the root's default buckets (the HSpec carries what they are)
		}
		if h.Custom && arg != nil {
			arg = wrapBuckets{arg}
		}
		var hist tally.Histogram
		func() {
			defer func() {
				if p := recover(); p != nil {
					if h.Custom {
						rejected[i] = true // a Buckets type of the caller's own is not supported: fine
						return
					}
					panic(p)
				}
			}()
			hist = scopes[h.Sub].Histogram(n, arg)
		}()
		if rejected[i] {
			continue
		}
		if fmt.Sprint(before.AsDurations()) != fmt.Sprint(spec.AsDurations()) || fmt.Sprint(before.AsValues()) != fmt.Sprint(spec.AsValues()) {
			errs.Addf("Histogram() modified the caller's slice: %v -> %v", before, spec)
		}
		for _, s := range h.Samp {
			if h.Dur {
				hist.RecordDuration(time.Duration(int64(s)))
			} else {
				hist.RecordValue(s.V())
			}
		}
		for j := range bufV {
			bufV[j], bufD[j] = -7.25, -7 // the caller's scratch buffer moves on
		}
	}
	tally.VerifReportOnce(root)
	if fmt.Sprint(arenaV0) != fmt.Sprint(arenaV) || fmt.Sprint(arenaD0) != fmt.Sprint(arenaD) {
		errs.Addf("Histogram() wrote into the caller's memory next to a bucket slice (layout %d): values %v -> %v, durations %v -> %v", c.Layout, arenaV0, arenaV, arenaD0, arenaD)
	}
	ev := log.Events()
	for i, h := range c.Hists {
		if rejected[i] {
			out.Classes = append(out.Classes, "custom-buckets-type-rejected")
			continue
		}
		checkHist(&errs, names[i], h, ev, c.Cached)
	}
	if c.Layout != 0 {
		out.Classes = append(out.Classes, fmt.Sprintf("layout=%d", c.Layout))
	}
	if c.Default != nil {
		out.Classes = append(out.Classes, "root-default-buckets")
	}
	for _, h := range c.Hists {
		if identity(h) == 0 && len(h.V)+len(h.D) > 0 {
			out.Classes = append(out.Classes, "identity-of-the-empty-set")
			break
		}
	}
	// non-trivial: two different specs with equal cache identity under one root
	for i := range c.Hists {
		for j := i + 1; j < len(c.Hists); j++ {
			if identity(c.Hists[i]) == identity(c.Hists[j]) && !sameSpec(c.Hists[i], c.Hists[j]) {
				out.NonTrivial = true
				if c.Hists[i].Dur != c.Hists[j].Dur {
					out.Classes = append(out.Classes, "collide-value-vs-duration")
				} else {
					out.Classes = append(out.Classes, "collide-same-kind")
				}
			}
		}
	}
	return out, errs.Err()
}

func TestCache(t *testing.T) {
	pbt.Main(t, pbt.Prop[CacheCase]{
		ID: "C20", Name: "cache",
		Rule: "rapid-generated sequences of 2..6 histogram creations under one root (root, a subscope and a tagged scope share the bucket cache) whose specifications are adversarial for the cache: identical, permuted, equal-sum perturbations (a+d,b-d) of bit patterns / nanoseconds, merged elements, duplicated bounds, and a value set and a duration set with identical element bits; samples on/next to bounds; then one report pass. Oracle: every histogram delivers and allocates exactly the reference tiling of its OWN spec, counts per bound match, spec handed to the reporter equals its own, caller slice unchanged. Non-trivial: two different specs with equal cache identity (seed + sum of 31*element) live under the root. Distinct: FNV-64 of the case JSON.",
		Gen:  genCache, Run: runCache, HangAfter: 20 * time.Second,
	})
}

// ------------------------------------------------------------ bucket cache, concurrent creation

type SchedCase struct {
	Cached  bool      `json:"cached"`
	Threads [][]HSpec `json:"threads"` // histograms created by each thread (each on its own subscope)
	Sched   []int     `json:"sched"`
}

func genSched(t *rapid.T) SchedCase {
	base := genCache(t)
	c := SchedCase{Cached: base.Cached}
	nt := rapid.IntRange(2, 3).Draw(t, "nthreads")
	c.Threads = make([][]HSpec, nt)
	for i, h := range base.Hists {
		c.Threads[i%nt] = append(c.Threads[i%nt], h)
	}
	c.Sched = sgen.Choices(t, 80, nt)
	return c
}

func runSched(c SchedCase) (pbt.Outcome, error) {
	var errs pbt.Errs
	var out pbt.Outcome
	var log *rec.Log
	var root tally.Scope
	if c.Cached {
		r := rec.NewCached()
		log = r.L
		root, _ = tally.VerifNewRootScope(tally.ScopeOptions{CachedReporter: r, OmitCardinalityMetrics: true}, 0, 1)
	} else {
		r := rec.NewStats()
		log = r.L
		root, _ = tally.VerifNewRootScope(tally.ScopeOptions{Reporter: r, OmitCardinalityMetrics: true}, 0, 1)
	}
	s := sched.New(c.Sched)
	log.OnCall = s.Yield
	tally.VerifSetHooks(&tally.VerifHooks{Yield: s.Yield, Lock: s.Lock})
	defer tally.VerifSetHooks(nil)
	type made struct {
		name string
		h    HSpec
	}
	var all []made
	for ti, hs := range c.Threads {
		ti, hs := ti, hs
		sub := root.SubScope(fmt.Sprintf("t%d", ti))
		for hi, h := range hs {
			all = append(all, made{fmt.Sprintf("t%d.h%d", ti, hi), h})
		}
		s.Go(fmt.Sprintf("creator%d", ti), func() {
			for hi, h := range hs {
				hist := sub.Histogram(fmt.Sprintf("h%d", hi), h.buckets())
				for _, smp := range h.Samp {
					if h.Dur {
						hist.RecordDuration(time.Duration(int64(smp)))
					} else {
						hist.RecordValue(smp.V())
					}
				}
			}
		})
	}
	res := s.Run()
	lastOptions = res.Options
	tally.VerifSetHooks(nil)
	log.OnCall = nil
	for _, p := range res.Panics {
		errs.Addf("panic in thread %s: %s\n%.1500s", p.Thread, p.Value, p.Stack)
	}
	if res.Deadlock || res.Hang || res.StepLimit {
		if res.Hang {
			errs.Poison() // a thread is still blocked inside the library: stop this process after saving the case
		}
		errs.Addf("deadlock=%v hang=%v steplimit=%v: %s", res.Deadlock, res.Hang, res.StepLimit, res.Detail)
		return out, errs.Err()
	}
	tally.VerifReportOnce(root)
	ev := log.Events()
	collide := false
	for i := range all {
		checkHist(&errs, all[i].name, all[i].h, ev, c.Cached)
		for j := i + 1; j < len(all); j++ {
			if identity(all[i].h) == identity(all[j].h) && !sameSpec(all[i].h, all[j].h) {
				collide = true
			}
		}
	}
	pre := sched.PreemptedAt(res.Trace, "bucketCache.Get:")
	out.NonTrivial = collide && pre
	if pre {
		out.Classes = append(out.Classes, "preempted-cache-window")
	}
	if collide {
		out.Classes = append(out.Classes, "colliding-specs")
	}
	return out, errs.Err()
}

func TestCacheSched(t *testing.T) {
	pbt.Main(t, pbt.Prop[SchedCase]{
		ID: "C20", Name: "cache-sched",
		Rule: "cooperative-scheduler mode: the adversarial (cache-colliding) histogram creations of the 'cache' mode are distributed over 2..3 threads, each creating on its own subscope of one root (shared bucket cache), with a schedule (<=80 choices) over the cache's read-unlock -> write-lock window and the reporter's allocation calls; same per-histogram own-bounds oracle. Non-trivial: two different specs with equal cache identity exist and the cache window was preempted.",
		Gen:  genSched, Run: runSched, Retries: 10,
	})
}

// ------------------------------------------------------------ bounded-exhaustive micro-scenarios

var lastOptions []int

// TestExhaustive enumerates every schedule with a bounded number of preemptions
// of two threads each creating ONE histogram on its own subscope of one root,
// for pairs of specs that are equal, or different but colliding in the bucket
// cache (same kind and across kinds).
func TestExhaustive(t *testing.T) {
	prop := pbt.Prop[SchedCase]{
		ID: "C20", Name: "exhaustive",
		Rule: "bounded-exhaustive mode: ALL schedules with at most 8 (quick) / 12 (thorough) preemptions (plain reporter; 5 / 7 with the cached reporter, whose allocation calls are schedule points too) of micro-scenarios {two threads each create one histogram on its own subscope of one root and record two samples; the two specs are equal, or different with equal bucket-cache identity: durations {1s,4s}|{2s,3s}, {5s}|{2s,3s}, values {1,4}|{0.5,8}, across kinds {-2,2}|{-1s,1s}}, enumerated depth-first over the cache's read-unlock -> write-lock window and the get-or-create hooks; same own-bounds oracle as the generated modes. Non-trivial: different colliding specs and the cache window was preempted.",
		Run:  func(c SchedCase) (pbt.Outcome, error) { return runSched(c) },
	}
	thorough := os.Getenv("VERIF_TIER") == "thorough"
	sec := int64(time.Second)
	f := func(vs ...float64) []pbt.F {
		var r []pbt.F
		for _, v := range vs {
			r = append(r, pbt.FOf(v))
		}
		return r
	}
	pairs := [][2]HSpec{
		{{Dur: true, D: []int64{sec, 4 * sec}, Samp: []pbt.F{pbt.F(uint64(sec)), pbt.F(uint64(3 * sec))}}, {Dur: true, D: []int64{2 * sec, 3 * sec}, Samp: []pbt.F{pbt.F(uint64(sec)), pbt.F(uint64(3 * sec))}}},
		{{Dur: true, D: []int64{5 * sec}, Samp: []pbt.F{pbt.F(uint64(sec)), pbt.F(uint64(6 * sec))}}, {Dur: true, D: []int64{2 * sec, 3 * sec}, Samp: []pbt.F{pbt.F(uint64(sec)), pbt.F(uint64(3 * sec))}}},
		{{V: f(1, 4), Samp: f(1, 3)}, {V: f(0.5, 8), Samp: f(0.5, 3)}},
		{{V: f(-2, 2), Samp: f(-2, 1)}, {Dur: true, D: []int64{-sec, sec}, Samp: []pbt.F{pbt.F(uint64(sec)), pbt.F(0)}}},
		{{V: f(1, 4), Samp: f(1, 3)}, {V: f(1, 4), Samp: f(4, 5)}},
	}
	pbt.MainEnum(t, prop, func(emit func(c SchedCase) bool) bool {
		all := true
		for _, cached := range []bool{false, true} {
			bound := 8
			if thorough {
				bound = 12
			}
			if cached {
				bound = 5
				if thorough {
					bound = 7
				}
			}
			for _, p := range pairs {
				base := SchedCase{Cached: cached, Threads: [][]HSpec{{p[0]}, {p[1]}}}
				_, ex := sched.Enumerate(bound, 600000, func(prefix []int) ([]int, bool) {
					c := base
					c.Sched = append([]int(nil), prefix...)
					ok := emit(c)
					return lastOptions, ok
				})
				all = all && ex
			}
		}
		return all
	})
}

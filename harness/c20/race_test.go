package c20

import (
	"fmt"
	"sync"
	"testing"
	"time"

	tally "github.com/uber-go/tally/v4"
	"pgregory.net/rapid"

	"verifharness/internal/pbt"
	"verifharness/internal/rec"
)

// CacheRaceCase: the histograms of a cache case (specifications adversarial for the bucket cache)
// are created and recorded on by one goroutine each, all released at the same moment, on fresh
// roots - "no matter which other bucket sets ... were used before or at the same time anywhere
// under the same root", with real parallelism and the race detector.
type CacheRaceCase struct {
	Case   CacheCase `json:"case"`
	Rounds int       `json:"rounds"`
}

func genCacheRace(t *rapid.T) CacheRaceCase {
	c := genCache(t)
	c.Layout = 0 // every goroutine owns its slice
	for i := range c.Hists {
		c.Hists[i].Custom = false
	}
	return CacheRaceCase{Case: c, Rounds: rapid.SampledFrom([]int{1, 10, 40}).Draw(t, "rounds")}
}

func runCacheRace(rc CacheRaceCase) (pbt.Outcome, error) {
	var out pbt.Outcome
	c := rc.Case
	c.Layout = 0
	rounds := rc.Rounds
	if rounds < 1 {
		rounds = 1
	}
	for r := 0; r < rounds; r++ {
		var errs pbt.Errs
		var log *rec.Log
		var root tally.Scope
		var def tally.Buckets
		if c.Default != nil {
			def = c.Default.buckets()
		}
		if c.Cached {
			rp := rec.NewCached()
			log = rp.L
			root, _ = tally.NewRootScope(tally.ScopeOptions{CachedReporter: rp, OmitCardinalityMetrics: true, DefaultBuckets: def}, 0)
		} else {
			rp := rec.NewStats()
			log = rp.L
			root, _ = tally.NewRootScope(tally.ScopeOptions{Reporter: rp, OmitCardinalityMetrics: true, DefaultBuckets: def}, 0)
		}
		scopes := []tally.Scope{root, root.SubScope("s1"), root.Tagged(map[string]string{"t": "1"})}
		prefixes := []string{"", "s1.", ""}
		names := make([]string, len(c.Hists))
		specs, _, _ := c.materialize()
		start := make(chan struct{})
		var wg sync.WaitGroup
		var mu sync.Mutex
		for i, h := range c.Hists {
			i, h := i, h
			names[i] = prefixes[h.Sub] + fmt.Sprintf("h%d", i)
			wg.Add(1)
			go func() {
				defer wg.Done()
				defer func() {
					if p := recover(); p != nil {
						mu.Lock()
						errs.Addf("creating or recording on histogram %d panicked: %v", i, p)
						mu.Unlock()
					}
				}()
				arg := specs[i]
				if h.UseDefault && c.Default != nil {
					arg = nil
				}
				<-start
				hist := scopes[h.Sub].Histogram(fmt.Sprintf("h%d", i), arg)
				for _, s := range h.Samp {
					if h.Dur {
						hist.RecordDuration(time.Duration(int64(s)))
					} else {
						hist.RecordValue(s.V())
					}
				}
			}()
		}
		close(start)
		wg.Wait()
		tally.VerifReportOnce(root)
		ev := log.Events()
		for i, h := range c.Hists {
			checkHist(&errs, names[i], h, ev, c.Cached)
		}
		if err := errs.Err(); err != nil {
			return out, fmt.Errorf("round %d of %d: %v", r+1, rounds, err)
		}
	}
	for i := range c.Hists {
		for j := i + 1; j < len(c.Hists); j++ {
			if identity(c.Hists[i]) == identity(c.Hists[j]) && !sameSpec(c.Hists[i], c.Hists[j]) {
				out.NonTrivial = true
			}
		}
	}
	out.Classes = append(out.Classes, fmt.Sprintf("rounds=%d", rounds))
	return out, nil
}

func TestCacheRace(t *testing.T) {
	pbt.Main(t, pbt.Prop[CacheRaceCase]{
		ID: "C20", Name: "cache-race",
		Rule: "free-running mode (real goroutines, -race): the 2..6 histograms of a generated cache case (specifications adversarial for the bucket cache: identical, permuted, equal-sum perturbations, merged or duplicated bounds, a value and a duration set with identical element bits; root default buckets) are created and recorded on by one goroutine each, all released at the same moment, under one fresh root (root, subscope and tagged scope share the cache); repeated on 1/10/40 fresh roots; then one pass. Oracle as in the cache mode: every histogram delivers and allocates exactly the reference tiling of its OWN specification with the counts of its own samples, and is handed its own specification; no panic; no race-detector report. Non-trivial: two different specifications with equal cache identity. Free-running: a failing case is re-run up to 60 times before it counts as reproduced.",
		Gen:  genCacheRace, Run: runCacheRace, Retries: 60, HangAfter: 120 * time.Second,
	})
}

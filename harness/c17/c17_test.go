// C17: Prometheus exposes what was recorded; registration conflicts never crash.
package c17

import (
	"errors"
	"fmt"
	"math"
	"sort"
	"strings"
	"sync/atomic"
	"testing"
	"time"

	prom "github.com/prometheus/client_golang/prometheus"
	dto "github.com/prometheus/client_model/go"
	tally "github.com/uber-go/tally/v4"
	tprom "github.com/uber-go/tally/v4/prometheus"
	"pgregory.net/rapid"

	"verifharness/internal/pbt"
)

type Op struct {
	K    string `json:"k"`           // counter gauge timer vhist dhist pass conflict
	N    int    `json:"n,omitempty"` // name index
	S    int    `json:"s,omitempty"` // scope index
	I    int64  `json:"i,omitempty"`
	F    pbt.F  `json:"f,omitempty"`
	Spec int    `json:"spec,omitempty"`
	What string `json:"what,omitempty"` // conflict flavour
}

type Case struct {
	TimerHist bool      `json:"timerHist"` // timers as histograms instead of summaries
	PanicCB   bool      `json:"panicCB"`   // error callback panics with a sentinel
	Scopes    []pbt.M   `json:"scopes"`    // tag VALUES for keys a,b per scope (same key set), plus optional subscope
	Ops       []Op      `json:"ops"`
	VSpecs    [][]pbt.F `json:"vspecs"` // strictly increasing finite value specs (generated)
	DSpecs    [][]int64 `json:"dspecs"` // strictly increasing duration specs in ns (generated)
	// ViaConfig: how the reporter is built. 0: NewReporter(Options) with the harness callback;
	// 1: Configuration.NewReporter with the harness callback in ConfigurationOptions; 2: Configuration
	// with onError "none" (errors swallowed: conflicts must not panic at all); 3: Configuration with
	// the default onError (registration errors panic with the error value - the only panics allowed)
	ViaConfig int `json:"viaConfig,omitempty"`
	// Suffix is appended to every metric name of the history: valid as it is ("X", "_9", "__", a
	// long one) or containing characters the Prometheus sanitizer rewrites (".x", "-y", "x.y-z"), in
	// which case the family is exposed under the sanitized name
	Suffix string `json:"suffix,omitempty"`
}

// pools the generated specs are drawn from (then de-duplicated and sorted): the fixed specs of the
// first version of this check, plus decimals, huge/tiny magnitudes and neighbours one ulp apart
var vpool = []float64{1, 2, 5, 0.5, -3, 0, 3, 10, 0.1, 0.2, 0.3, 0.7, 1.1, 2.5, 100, 1e-300, 1e300, -1e300, -0.25, 1e-9,
	math.Nextafter(1, 2), math.Nextafter(1, 0), math.Nextafter(0.3, 1), 1 << 53, 123456.789}

func genVSpec(t *rapid.T) []pbt.F {
	n := rapid.IntRange(1, 8).Draw(t, "vn")
	set := map[float64]bool{}
	for i := 0; i < n; i++ {
		var v float64
		switch rapid.IntRange(0, 2).Draw(t, "vsrc") {
		case 0:
			v = rapid.SampledFrom(vpool).Draw(t, "vp")
		case 1:
			v = float64(rapid.IntRange(-5000, 100000).Draw(t, "vm")) / 1000
		default:
			v = rapid.Float64Range(-1e6, 1e6).Draw(t, "vf")
		}
		if v == 0 {
			v = 0 // no negative zero
		}
		set[v] = true
	}
	var fs []float64
	for v := range set {
		fs = append(fs, v)
	}
	sort.Float64s(fs)
	out := make([]pbt.F, len(fs))
	for i, v := range fs {
		out[i] = pbt.FOf(v)
	}
	return out
}

// durations stay below 1e15 ns (11 days): there the conversion to float seconds is strictly
// increasing for bounds >= 1 ns apart, which Prometheus requires of a histogram's bounds
var dpool = []int64{0, 1, 1000, int64(time.Millisecond), int64(5 * time.Millisecond), int64(10 * time.Millisecond), int64(time.Second), int64(time.Minute),
	int64(time.Hour), 999999999, 1000000001, int64(1128 * time.Millisecond), int64(1253 * time.Millisecond), 999999999999999}

func genDSpec(t *rapid.T) []int64 {
	n := rapid.IntRange(1, 8).Draw(t, "dn")
	set := map[int64]bool{}
	for i := 0; i < n; i++ {
		var d int64
		switch rapid.IntRange(0, 3).Draw(t, "dsrc") {
		case 0:
			d = rapid.SampledFrom(dpool).Draw(t, "dp")
		case 1:
			d = int64(rapid.IntRange(1, 100000).Draw(t, "dms")) * int64(time.Millisecond) // millisecond granular, up to 100 s
		case 2:
			d = rapid.Int64Range(0, 999999999999999).Draw(t, "dns")
		default:
			d = int64(rapid.IntRange(1, 5000).Draw(t, "dus")) * int64(time.Microsecond)
		}
		if rapid.IntRange(0, 5).Draw(t, "dneg") == 0 {
			d = -d // lag/skew histograms have bounds below zero
		}
		set[d] = true
	}
	var ds []int64
	for d := range set {
		ds = append(ds, d)
	}
	sort.Slice(ds, func(i, j int) bool { return ds[i] < ds[j] })
	return ds
}

var conflicts = []string{"counter-then-gauge", "gauge-then-counter", "timer-then-histogram", "histogram-then-timer", "counter-other-tagkeys", "gauge-other-tagkeys", "histogram-other-tagkeys", "timer-other-tagkeys", "counter-then-timer", "histogram-then-counter",
	"gauge-then-timer", "timer-then-gauge", "gauge-then-histogram", "histogram-then-gauge", "timer-then-counter", "counter-then-histogram"}

func gen(t *rapid.T) Case {
	c := Case{TimerHist: rapid.Bool().Draw(t, "timerHist"), PanicCB: rapid.IntRange(0, 2).Draw(t, "panicCB") == 0}
	if rapid.IntRange(0, 3).Draw(t, "viaConfig?") == 0 {
		c.ViaConfig = rapid.IntRange(1, 3).Draw(t, "viaConfig")
	}
	ns := rapid.IntRange(1, 4).Draw(t, "nscopes")
	for i := 0; i < ns; i++ {
		c.Scopes = append(c.Scopes, pbt.M{"a": pbt.S(rapid.SampledFrom([]string{"x", "y", "z"}).Draw(t, "va")), "b": pbt.S(rapid.SampledFrom([]string{"1", "2"}).Draw(t, "vb"))})
	}
	for i, nv := 0, rapid.IntRange(1, 3).Draw(t, "nvspecs"); i < nv; i++ {
		c.VSpecs = append(c.VSpecs, genVSpec(t))
	}
	for i, nd := 0, rapid.IntRange(1, 3).Draw(t, "ndspecs"); i < nd; i++ {
		c.DSpecs = append(c.DSpecs, genDSpec(t))
	}
	n := rapid.IntRange(1, 30).Draw(t, "nops")
	for i := 0; i < n; i++ {
		op := Op{K: rapid.SampledFrom([]string{"counter", "counter", "gauge", "timer", "vhist", "vhist", "dhist", "pass", "conflict", "prereg"}).Draw(t, "k")}
		op.N = rapid.IntRange(0, 1).Draw(t, "n")
		op.S = rapid.IntRange(0, ns-1).Draw(t, "s")
		switch op.K {
		case "counter":
			op.I = int64(rapid.IntRange(0, 1000).Draw(t, "d"))
		case "gauge":
			op.F = pbt.AnyFloat().Draw(t, "f")
		case "timer":
			op.I = pbt.AnyInt64().Draw(t, "d")
		case "vhist":
			op.Spec = rapid.IntRange(0, len(c.VSpecs)-1).Draw(t, "spec")
			sp := c.VSpecs[op.Spec]
			switch rapid.IntRange(0, 3).Draw(t, "vk") {
			case 0:
				op.F = sp[rapid.IntRange(0, len(sp)-1).Draw(t, "bi")]
			case 1:
				op.F = pbt.FOf(math.Nextafter(sp[rapid.IntRange(0, len(sp)-1).Draw(t, "bi")].V(), math.Inf(1)))
			case 2:
				op.F = pbt.FOf(math.Nextafter(sp[rapid.IntRange(0, len(sp)-1).Draw(t, "bi")].V(), math.Inf(-1)))
			default:
				op.F = pbt.FOf(float64(rapid.IntRange(-40, 120).Draw(t, "v")) / 10)
			}
		case "dhist":
			op.Spec = rapid.IntRange(0, len(c.DSpecs)-1).Draw(t, "spec")
			sp := c.DSpecs[op.Spec]
			switch rapid.IntRange(0, 3).Draw(t, "dk") {
			case 0:
				op.I = sp[rapid.IntRange(0, len(sp)-1).Draw(t, "bi")]
			case 1:
				op.I = sp[rapid.IntRange(0, len(sp)-1).Draw(t, "bi")] + 1
			case 2:
				op.I = sp[rapid.IntRange(0, len(sp)-1).Draw(t, "bi")] - 1
			default:
				op.I = rapid.Int64Range(-1e6, 2e9).Draw(t, "d")
			}
		case "conflict":
			op.What = rapid.SampledFrom(conflicts).Draw(t, "what")
		case "prereg":
			// pre-registration through the reporter's public Register* API with the tag keys listed
			// in a generated order
			// the x-flavours register ONE shared name "p_N" as different kinds with the same description
			// and tag keys (a name reused for another kind through the Register* API)
			op.What = rapid.SampledFrom([]string{"counter", "gauge", "timer", "xcounter", "xgauge", "xtimer"}).Draw(t, "prekind")
			op.I = int64(rapid.IntRange(0, 1).Draw(t, "order"))
		}
		c.Ops = append(c.Ops, op)
	}
	if rapid.IntRange(0, 2).Draw(t, "suffix?") == 0 {
		c.Suffix = rapid.SampledFrom([]string{"X", "_9", "__", "ABC_def", ".x", "-y", "x.y-z", "_" + strings.Repeat("n", 120)}).Draw(t, "suffix")
	}
	return c
}

var sentinel = errors.New("sentinel from OnRegisterError")

// handlerSeq makes the HTTP handler path of every Configuration-built reporter unique (the
// default serve mux panics on a second registration of one path).
var handlerSeq atomic.Int64

type series struct {
	counter float64
	gauge   uint64
	hasG    bool
	samples []float64
	timers  int
	spec    []float64
	dspec   []int64 // duration histograms: bounds and samples in ns (judged in the integer domain)
	dsamp   []int64
}

func labelKey(m map[string]string) string {
	ks := make([]string, 0, len(m))
	for k := range m {
		ks = append(ks, k)
	}
	sort.Strings(ks)
	var b strings.Builder
	for _, k := range ks {
		fmt.Fprintf(&b, "%s=%s,", k, m[k])
	}
	return b.String()
}

// try runs f and reports a recovered panic value.
func try(f func()) (p interface{}) {
	defer func() { p = recover() }()
	f()
	return nil
}

func run(c Case) (pbt.Outcome, error) {
	var errs pbt.Errs
	var out pbt.Outcome
	reg := prom.NewRegistry()
	var cbErrs []error
	tt := tprom.SummaryTimerType
	if c.TimerHist {
		tt = tprom.HistogramTimerType
	}
	cb := func(err error) {
		cbErrs = append(cbErrs, err)
		if c.PanicCB {
			panic(sentinel)
		}
	}
	var rep tprom.Reporter
	if c.ViaConfig == 0 {
		rep = tprom.NewReporter(tprom.Options{Registerer: reg, DefaultTimerType: tt, OnRegisterError: cb})
	} else {
		cfg := tprom.Configuration{HandlerPath: fmt.Sprintf("/verif-c17-%d", handlerSeq.Add(1)), TimerType: "summary"}
		if c.TimerHist {
			cfg.TimerType = "histogram"
		}
		co := tprom.ConfigurationOptions{Registry: reg}
		switch c.ViaConfig {
		case 1:
			co.OnError = cb
		case 2:
			cfg.OnError = "none"
		}
		var err error
		if rep, err = cfg.NewReporter(co); err != nil {
			return out, fmt.Errorf("harness: Configuration.NewReporter: %v", err)
		}
	}
	// with onError "none" nothing may panic; with the default onError a registration error panics
	// with the error itself
	allowedPanic := func(p interface{}) bool {
		switch c.ViaConfig {
		case 2:
			return false
		case 3:
			_, isErr := p.(error)
			return isErr
		}
		return p == interface{}(sentinel) && c.PanicCB
	}
	observable := c.ViaConfig <= 1 // the harness callback sees the errors
	so := tprom.DefaultSanitizerOpts
	root, _ := tally.NewRootScope(tally.ScopeOptions{CachedReporter: rep, Separator: tprom.DefaultSeparator, SanitizeOptions: &so, OmitCardinalityMetrics: true}, 0)
	scopes := make([]tally.Scope, len(c.Scopes))
	for i, tg := range c.Scopes {
		m := tg.Std()
		scopes[i] = root.Tagged(m)
		pbt.Spoil(m)
	}
	model := map[string]map[string]*series{} // family -> labels -> series
	get := func(fam string, labels map[string]string) *series {
		if model[fam] == nil {
			model[fam] = map[string]*series{}
		}
		lk := labelKey(labels)
		if model[fam][lk] == nil {
			model[fam][lk] = &series{}
		}
		return model[fam][lk]
	}
	// the exposed family name of a metric name: the Prometheus sanitizer keeps alphanumerics and '_'
	fam := func(n string) string {
		b := []byte(n + c.Suffix)
		for i, ch := range b {
			if !(ch >= 'a' && ch <= 'z' || ch >= 'A' && ch <= 'Z' || ch >= '0' && ch <= '9' || ch == '_') {
				b[i] = '_'
			}
		}
		return string(b)
	}
	boundary, multi, cross := false, false, false
	preregs := 0
	nconf := 0
	for oi, op := range c.Ops {
		sc := scopes[op.S]
		labels := c.Scopes[op.S].Std()
		var p interface{}
		switch op.K {
		case "counter":
			raw := fmt.Sprintf("c_%d", op.N) + c.Suffix
			name := fam(fmt.Sprintf("c_%d", op.N))
			p = try(func() { sc.Counter(raw).Inc(op.I) })
			get(name, labels).counter += float64(op.I)
		case "gauge":
			raw := fmt.Sprintf("g_%d", op.N) + c.Suffix
			name := fam(fmt.Sprintf("g_%d", op.N))
			p = try(func() { sc.Gauge(raw).Update(op.F.V()) })
			s := get(name, labels)
			s.gauge, s.hasG = uint64(op.F), true
		case "timer":
			raw := fmt.Sprintf("t_%d", op.N) + c.Suffix
			name := fam(fmt.Sprintf("t_%d", op.N))
			p = try(func() { sc.Timer(raw).Record(time.Duration(op.I)) })
			get(name, labels).timers++
		case "vhist":
			raw := fmt.Sprintf("hv_%d", op.Spec) + c.Suffix
			name := fam(fmt.Sprintf("hv_%d", op.Spec))
			if len(c.VSpecs) == 0 {
				continue
			}
			var sp []float64
			for _, b := range c.VSpecs[op.Spec%len(c.VSpecs)] {
				sp = append(sp, b.V())
			}
			p = try(func() {
				arg := tally.ValueBuckets(append([]float64(nil), sp...))
				h := sc.Histogram(raw, arg)
				for i := range arg {
					arg[i] = -12345.5 // the slice is the caller's: what it does with it afterwards changes nothing
				}
				h.RecordValue(op.F.V())
			})
			s := get(name, labels)
			s.spec = sp
			s.samples = append(s.samples, op.F.V())
			for _, b := range sp {
				if op.F.V() == b {
					boundary = true
				}
			}
		case "dhist":
			raw := fmt.Sprintf("hd_%d", op.Spec) + c.Suffix
			name := fam(fmt.Sprintf("hd_%d", op.Spec))
			if len(c.DSpecs) == 0 {
				continue
			}
			var sp []time.Duration
			for _, b := range c.DSpecs[op.Spec%len(c.DSpecs)] {
				sp = append(sp, time.Duration(b))
			}
			p = try(func() {
				arg := tally.DurationBuckets(append([]time.Duration(nil), sp...))
				h := sc.Histogram(raw, arg)
				for i := range arg {
					arg[i] = -12345
				}
				h.RecordDuration(time.Duration(op.I))
			})
			s := get(name, labels)
			s.spec, s.dspec = nil, c.DSpecs[op.Spec%len(c.DSpecs)]
			for _, b := range sp {
				s.spec = append(s.spec, float64(b)/float64(time.Second))
				if time.Duration(op.I) == b {
					boundary = true
				}
			}
			s.dsamp = append(s.dsamp, op.I)
			s.samples = append(s.samples, float64(op.I)/1e9) // only its count is used
		case "prereg":
			keys := []string{"a", "b"}
			if op.I == 1 {
				keys = []string{"b", "a"}
			}
			p = try(func() {
				switch op.What {
				case "counter":
					_, _ = rep.RegisterCounter(fam(fmt.Sprintf("c_%d", op.N)), keys, "pre-registered")
				case "gauge":
					_, _ = rep.RegisterGauge(fam(fmt.Sprintf("g_%d", op.N)), keys, "pre-registered")
				case "timer":
					_, _ = rep.RegisterTimer(fam(fmt.Sprintf("t_%d", op.N)), keys, "pre-registered", nil)
				case "xcounter":
					_, _ = rep.RegisterCounter(fmt.Sprintf("p_%d", op.N), keys, "pre-registered")
				case "xgauge":
					_, _ = rep.RegisterGauge(fmt.Sprintf("p_%d", op.N), keys, "pre-registered")
				case "xtimer":
					_, _ = rep.RegisterTimer(fmt.Sprintf("p_%d", op.N), keys, "pre-registered", nil)
				}
			})
			preregs++
		case "pass":
			p = try(func() { tally.VerifReportOnce(root) })
		case "conflict":
			cross = true
			nconf++
			name := fmt.Sprintf("x%d_%d", oi, op.N)
			before := len(cbErrs)
			other := root.Tagged(map[string]string{"other": "keys"})
			use := func(s tally.Scope, kind string) {
				switch kind {
				case "counter":
					s.Counter(name).Inc(1)
				case "gauge":
					s.Gauge(name).Update(1)
				case "timer":
					tm := s.Timer(name)
					tm.Record(time.Second)
					tm.Start().Stop()
				case "histogram":
					h := s.Histogram(name, tally.ValueBuckets{1, 2})
					h.RecordValue(1)
					h.RecordDuration(time.Second)
					h.Start().Stop()
				}
			}
			parts := strings.Split(op.What, "-")
			first, second := parts[0], parts[len(parts)-1]
			s2 := sc
			if second == "tagkeys" {
				second = first
				s2 = other
			}
			if p0 := try(func() { use(sc, first) }); p0 != nil {
				errs.Addf("op %d: first use of %s %q panicked: %v", oi, first, name, p0)
			}
			p = try(func() { use(s2, second); tally.VerifReportOnce(root) })
			if p == nil && len(cbErrs) == before && !(c.TimerHist && (op.What == "timer-then-histogram" || op.What == "histogram-then-timer")) {
				// a registration Prometheus accepted: nothing to check (e.g. the timer flavour made it legal)
				_ = before
			}
			if observable && p != nil && p == interface{}(sentinel) && len(cbErrs) == before {
				errs.Addf("op %d: sentinel panic without a callback call?!", oi)
			}
			// every flavour except histogram-flavoured timers sharing a name with a histogram is a
			// registration Prometheus rejects (same name, other type or other label names): it must
			// reach the error callback
			expectReject := !(c.TimerHist && (op.What == "timer-then-histogram" || op.What == "histogram-then-timer"))
			if c.ViaConfig == 3 && expectReject && p == nil {
				errs.Addf("op %d (%s): built from a Configuration with the default onError, a rejected registration must panic with the error (that is the configured callback); nothing happened", oi, op.What)
			}
			if observable && expectReject && len(cbErrs) == before {
				errs.Addf("op %d (%s, timerHist=%v): the second registration is one Prometheus rejects, but the error callback was not called", oi, op.What, c.TimerHist)
			}
			// the same request made on the reporter directly: whenever the callback returns the
			// caller gets a usable (possibly no-op) metric, never nil
			tags2 := labels
			if s2 == other {
				tags2 = map[string]string{"other": "keys"}
			}
			beforeDirect := len(cbErrs)
			if pd := try(func() {
				switch second {
				case "counter":
					if h := rep.AllocateCounter(name, tags2); h == nil {
						errs.Addf("op %d (%s): AllocateCounter returned nil", oi, op.What)
					} else {
						h.ReportCount(1)
					}
				case "gauge":
					if h := rep.AllocateGauge(name, tags2); h == nil {
						errs.Addf("op %d (%s): AllocateGauge returned nil", oi, op.What)
					} else {
						h.ReportGauge(1)
					}
				case "timer":
					if h := rep.AllocateTimer(name, tags2); h == nil {
						errs.Addf("op %d (%s, timerHist=%v): AllocateTimer returned nil after a rejected registration", oi, op.What, c.TimerHist)
					} else {
						h.ReportTimer(time.Second)
					}
				case "histogram":
					if h := rep.AllocateHistogram(name, tags2, tally.ValueBuckets{1, 2}); h == nil {
						errs.Addf("op %d (%s): AllocateHistogram returned nil", oi, op.What)
					} else {
						h.ValueBucket(1, 2).ReportSamples(1)
						h.DurationBucket(time.Second, 2*time.Second).ReportSamples(1)
					}
				}
			}); pd != nil && !allowedPanic(pd) {
				errs.Addf("op %d (%s): the same request made on the reporter directly panicked: %v", oi, op.What, pd)
			}
			// it is a registration Prometheus rejects like the one before it (nothing was registered for
			// it then): every rejected registration is reported, not only the first of its name and keys
			if observable && expectReject && len(cbErrs) == beforeDirect {
				errs.Addf("op %d (%s, timerHist=%v): the same rejected registration made again (on the reporter directly) did not reach the error callback", oi, op.What, c.TimerHist)
			}
			// a rejected second registration (same kind, other tag keys) must leave the first,
			// legitimate family exposed with what was recorded on it
			if strings.HasSuffix(op.What, "-other-tagkeys") && (p == nil || allowedPanic(p)) {
				if p2 := try(func() { tally.VerifReportOnce(root) }); p2 != nil && !allowedPanic(p2) {
					errs.Addf("op %d: report pass after the conflict panicked: %v", oi, p2)
				}
				fams, _ := reg.Gather()
				found := false
				for _, f := range fams {
					if f.GetName() != name {
						continue
					}
					found = true
					okv := false
					for _, m := range f.Metric {
						lbl := map[string]string{}
						for _, lp := range m.Label {
							lbl[lp.GetName()] = lp.GetValue()
						}
						if labelKey(lbl) != labelKey(labels) {
							continue
						}
						switch first {
						case "counter":
							okv = m.GetCounter().GetValue() == 1
						case "gauge":
							okv = m.GetGauge().GetValue() == 1
						case "timer":
							okv = m.GetSummary().GetSampleCount() == 2 || m.GetHistogram().GetSampleCount() == 2
						case "histogram":
							okv = m.GetHistogram().GetSampleCount() == 1
						}
					}
					if !okv {
						errs.Addf("op %d (%s): after the rejected registration the first %s %q%v no longer shows what was recorded on it: %v", oi, op.What, first, name, labels, f)
					}
				}
				if !found {
					errs.Addf("op %d (%s): after the rejected registration the family %q of the first, accepted %s is not exposed at all", oi, op.What, name, first)
				}
			}
		}
		if p != nil {
			if allowedPanic(p) {
				continue
			}
			errs.Addf("op %d (%s %s, viaConfig=%d): panic %v", oi, op.K, op.What, c.ViaConfig, p)
		}
	}
	if p := try(func() { tally.VerifReportOnce(root) }); p != nil && !allowedPanic(p) {
		errs.Addf("final report pass panicked: %v", p)
	}
	fams, err := reg.Gather()
	if err != nil {
		errs.Addf("Gather: %v", err)
	}
	seen := map[string]int{}
	for _, f := range fams {
		seen[f.GetName()]++
		want, ok := model[f.GetName()]
		if !ok {
			continue // families created by conflict ops are not value-checked
		}
		if len(f.Metric) != len(want) {
			errs.Addf("family %s has %d series, want %d (one per tag-value combination)", f.GetName(), len(f.Metric), len(want))
		}
		if len(want) >= 2 {
			multi = true
		}
		for _, m := range f.Metric {
			labels := map[string]string{}
			for _, lp := range m.Label {
				labels[lp.GetName()] = lp.GetValue()
			}
			s := want[labelKey(labels)]
			if s == nil {
				errs.Addf("family %s has an unexpected series %v", f.GetName(), labels)
				continue
			}
			switch {
			case strings.HasPrefix(f.GetName(), "c_"):
				if f.GetType() != dto.MetricType_COUNTER || m.GetCounter().GetValue() != s.counter {
					errs.Addf("%s%v: type %v value %v, want counter %v", f.GetName(), labels, f.GetType(), m.GetCounter().GetValue(), s.counter)
				}
			case strings.HasPrefix(f.GetName(), "g_"):
				if f.GetType() != dto.MetricType_GAUGE || math.Float64bits(m.GetGauge().GetValue()) != s.gauge {
					errs.Addf("%s%v: type %v value %v, want gauge %v", f.GetName(), labels, f.GetType(), m.GetGauge().GetValue(), pbt.F(s.gauge))
				}
			case strings.HasPrefix(f.GetName(), "t_"):
				var n uint64
				if c.TimerHist {
					n = m.GetHistogram().GetSampleCount()
				} else {
					n = m.GetSummary().GetSampleCount()
				}
				if int(n) != s.timers {
					errs.Addf("%s%v: %d timer samples, want %d", f.GetName(), labels, n, s.timers)
				}
			case strings.HasPrefix(f.GetName(), "hv_"), strings.HasPrefix(f.GetName(), "hd_"):
				h := m.GetHistogram()
				if int(h.GetSampleCount()) != len(s.samples) {
					errs.Addf("%s%v: total %d samples, want %d", f.GetName(), labels, h.GetSampleCount(), len(s.samples))
				}
				if len(h.Bucket) != len(s.spec) {
					errs.Addf("%s%v: %d buckets, want %d (%v)", f.GetName(), labels, len(h.Bucket), len(s.spec), s.spec)
				}
				for bi, b := range h.Bucket {
					if bi >= len(s.spec) {
						break
					}
					// the bound itself is compared up to a few ulps for durations ("in seconds" does not
					// fix the rounding of the conversion); the cumulative counts are judged exactly
					if ub := b.GetUpperBound(); ub != s.spec[bi] && !(s.dspec != nil && math.Abs(ub-s.spec[bi]) <= 4e-16*math.Abs(s.spec[bi])) {
						errs.Addf("%s%v: bucket %d bound %v, want %v", f.GetName(), labels, bi, b.GetUpperBound(), s.spec[bi])
					}
					cnt := 0
					if s.dspec != nil {
						for _, d := range s.dsamp {
							if d <= s.dspec[bi] {
								cnt++
							}
						}
					} else {
						for _, v := range s.samples {
							if v <= s.spec[bi] {
								cnt++
							}
						}
					}
					if int(b.GetCumulativeCount()) != cnt {
						errs.Addf("%s%v: cumulative count at le=%v is %d, want %d = number of recorded samples <= that bound (samples %v %v, spec %v %v)", f.GetName(), labels, s.spec[bi], b.GetCumulativeCount(), cnt, s.samples, s.dsamp, s.spec, s.dspec)
					}
				}
			}
		}
	}
	for name := range model {
		if seen[name] != 1 {
			errs.Addf("metric %s appears in %d families, want exactly 1", name, seen[name])
		}
	}
	out.NonTrivial = boundary || multi || cross
	if boundary {
		out.Classes = append(out.Classes, "sample-on-bound")
	}
	if multi {
		out.Classes = append(out.Classes, "multi-series")
	}
	if cross {
		out.Classes = append(out.Classes, "conflict")
	}
	if c.PanicCB {
		out.Classes = append(out.Classes, "panicking-callback")
	}
	if preregs > 0 {
		out.Classes = append(out.Classes, "pre-registered")
	}
	out.Classes = append(out.Classes, fmt.Sprintf("callback-errors>0=%v", len(cbErrs) > 0))
	_ = nconf
	return out, errs.Err()
}

func TestC17(t *testing.T) {
	pbt.Main(t, pbt.Prop[Case]{
		ID: "C17", Name: "prometheus",
		Rule: "rapid-generated histories (1..30 ops) on a tally root whose cached reporter is the Prometheus reporter on a fresh registry (separator '_', Prometheus sanitizer; timers as summaries or histograms; error callback returning or panicking with a sentinel; in a quarter of the cases the reporter is built through Configuration.NewReporter - harness callback, onError \"none\" where nothing may panic, or the default onError where only the registration error itself may be the panic value): metric names with a generated suffix (valid as it is, or with characters the Prometheus sanitizer rewrites; the family is then exposed under the sanitized name); counters (non-negative deltas), gauges (hostile float bits), timers, value and duration histograms with GENERATED strictly increasing finite specs (1..8 bounds from pools of decimals, huge/tiny magnitudes, one-ulp neighbours; durations ns..11 days incl. millisecond-granular bounds above 1 s) and samples on / one ulp or ns above and below / around the bounds, 1..4 tagged scopes with the same tag keys and different values, report passes, pre-registration of counter/gauge/timer families through the reporter's Register* API with the tag keys in either order (before or after first use; values must be exposed as without it), and conflict programs (a name reused for another kind: every ordered pair of counter, gauge, timer and histogram; or with other tag keys) whose result is then used through every method. Oracle after a final pass: Gather() shows counter == sum, gauge == last update (bits), cumulative bucket counts == #samples <= bound with bounds == spec (durations in seconds) and total == #samples, timer count == #values, one family per name and one series per tag-value combination; conflicts: the rejected registration reaches the error callback, the same request made on the reporter directly reaches it again and returns a non-nil usable metric, no panic other than the sentinel, at any point, and a rejected registration with other tag keys leaves the first, accepted family exposed with its values. Non-trivial: a sample equal to a bound, or >=2 series in a family, or a cross-kind/tag-key conflict. Distinct: FNV-64 of the case JSON.",
		Gen:  gen, Run: run, HangAfter: 20 * time.Second,
	})
}

// C17: Prometheus exposes what was recorded; registration conflicts never crash.
package c17

import (
	"errors"
	"fmt"
	"math"
	"sort"
	"strings"
	"testing"
	"time"

	prom "github.com/prometheus/client_golang/prometheus"
	dto "github.com/prometheus/client_model/go"
	tally "github.com/uber-go/tally/v4"
	tprom "github.com/uber-go/tally/v4/prometheus"
	"pgregory.net/rapid"

	"verifharness/internal/pbt"
)

type Op struct {
	K    string `json:"k"` // counter gauge timer vhist dhist pass conflict
	N    int    `json:"n,omitempty"`    // name index
	S    int    `json:"s,omitempty"`    // scope index
	I    int64  `json:"i,omitempty"`
	F    pbt.F  `json:"f,omitempty"`
	Spec int    `json:"spec,omitempty"`
	What string `json:"what,omitempty"` // conflict flavour
}

type Case struct {
	TimerHist bool  `json:"timerHist"` // timers as histograms instead of summaries
	PanicCB   bool  `json:"panicCB"`   // error callback panics with a sentinel
	Scopes    []pbt.M `json:"scopes"`  // tag VALUES for keys a,b per scope (same key set), plus optional subscope
	Ops       []Op  `json:"ops"`
}

var vspecs = [][]float64{{1, 2, 5}, {0.5}, {-3, 0, 3, 10}, {0.1, 0.2, 0.3}}
var dspecs = [][]time.Duration{{time.Millisecond, 10 * time.Millisecond, time.Second}, {5 * time.Millisecond}, {0, time.Microsecond, time.Minute}}

var conflicts = []string{"counter-then-gauge", "gauge-then-counter", "timer-then-histogram", "histogram-then-timer", "counter-other-tagkeys", "gauge-other-tagkeys", "histogram-other-tagkeys", "timer-other-tagkeys", "counter-then-timer", "histogram-then-counter"}

func gen(t *rapid.T) Case {
	c := Case{TimerHist: rapid.Bool().Draw(t, "timerHist"), PanicCB: rapid.IntRange(0, 2).Draw(t, "panicCB") == 0}
	ns := rapid.IntRange(1, 4).Draw(t, "nscopes")
	for i := 0; i < ns; i++ {
		c.Scopes = append(c.Scopes, pbt.M{"a": pbt.S(rapid.SampledFrom([]string{"x", "y", "z"}).Draw(t, "va")), "b": pbt.S(rapid.SampledFrom([]string{"1", "2"}).Draw(t, "vb"))})
	}
	n := rapid.IntRange(1, 30).Draw(t, "nops")
	for i := 0; i < n; i++ {
		op := Op{K: rapid.SampledFrom([]string{"counter", "counter", "gauge", "timer", "vhist", "vhist", "dhist", "pass", "conflict"}).Draw(t, "k")}
		op.N = rapid.IntRange(0, 1).Draw(t, "n")
		op.S = rapid.IntRange(0, ns-1).Draw(t, "s")
		switch op.K {
		case "counter":
			op.I = int64(rapid.IntRange(0, 1000).Draw(t, "d"))
		case "gauge":
			op.F = pbt.AnyFloat().Draw(t, "f")
		case "timer":
			op.I = pbt.AnyInt64().Draw(t, "d")
		case "vhist":
			op.Spec = rapid.IntRange(0, len(vspecs)-1).Draw(t, "spec")
			sp := vspecs[op.Spec]
			switch rapid.IntRange(0, 2).Draw(t, "vk") {
			case 0:
				op.F = pbt.FOf(sp[rapid.IntRange(0, len(sp)-1).Draw(t, "bi")])
			case 1:
				op.F = pbt.FOf(math.Nextafter(sp[rapid.IntRange(0, len(sp)-1).Draw(t, "bi")], math.Inf(1)))
			default:
				op.F = pbt.FOf(float64(rapid.IntRange(-40, 120).Draw(t, "v")) / 10)
			}
		case "dhist":
			op.Spec = rapid.IntRange(0, len(dspecs)-1).Draw(t, "spec")
			sp := dspecs[op.Spec]
			switch rapid.IntRange(0, 2).Draw(t, "dk") {
			case 0:
				op.I = int64(sp[rapid.IntRange(0, len(sp)-1).Draw(t, "bi")])
			case 1:
				op.I = int64(sp[rapid.IntRange(0, len(sp)-1).Draw(t, "bi")]) + 1
			default:
				op.I = rapid.Int64Range(-1e6, 2e9).Draw(t, "d")
			}
		case "conflict":
			op.What = rapid.SampledFrom(conflicts).Draw(t, "what")
		}
		c.Ops = append(c.Ops, op)
	}
	return c
}

var sentinel = errors.New("sentinel from OnRegisterError")

type series struct {
	counter float64
	gauge   uint64
	hasG    bool
	samples []float64
	timers  int
	spec    []float64
}

func labelKey(m map[string]string) string {
	ks := make([]string, 0, len(m))
	for k := range m {
		ks = append(ks, k)
	}
	sort.Strings(ks)
	var b strings.Builder
	for _, k := range ks {
		fmt.Fprintf(&b, "%s=%s,", k, m[k])
	}
	return b.String()
}

// try runs f and reports a recovered panic value.
func try(f func()) (p interface{}) {
	defer func() { p = recover() }()
	f()
	return nil
}

func run(c Case) (pbt.Outcome, error) {
	var errs pbt.Errs
	var out pbt.Outcome
	reg := prom.NewRegistry()
	var cbErrs []error
	tt := tprom.SummaryTimerType
	if c.TimerHist {
		tt = tprom.HistogramTimerType
	}
	rep := tprom.NewReporter(tprom.Options{Registerer: reg, DefaultTimerType: tt, OnRegisterError: func(err error) {
		cbErrs = append(cbErrs, err)
		if c.PanicCB {
			panic(sentinel)
		}
	}})
	so := tprom.DefaultSanitizerOpts
	root, _ := tally.NewRootScope(tally.ScopeOptions{CachedReporter: rep, Separator: tprom.DefaultSeparator, SanitizeOptions: &so, OmitCardinalityMetrics: true}, 0)
	scopes := make([]tally.Scope, len(c.Scopes))
	for i, tg := range c.Scopes {
		scopes[i] = root.Tagged(tg.Std())
	}
	model := map[string]map[string]*series{} // family -> labels -> series
	get := func(fam string, labels map[string]string) *series {
		if model[fam] == nil {
			model[fam] = map[string]*series{}
		}
		lk := labelKey(labels)
		if model[fam][lk] == nil {
			model[fam][lk] = &series{}
		}
		return model[fam][lk]
	}
	boundary, multi, cross := false, false, false
	nconf := 0
	for oi, op := range c.Ops {
		sc := scopes[op.S]
		labels := c.Scopes[op.S].Std()
		var p interface{}
		switch op.K {
		case "counter":
			name := fmt.Sprintf("c_%d", op.N)
			p = try(func() { sc.Counter(name).Inc(op.I) })
			get(name, labels).counter += float64(op.I)
		case "gauge":
			name := fmt.Sprintf("g_%d", op.N)
			p = try(func() { sc.Gauge(name).Update(op.F.V()) })
			s := get(name, labels)
			s.gauge, s.hasG = uint64(op.F), true
		case "timer":
			name := fmt.Sprintf("t_%d", op.N)
			p = try(func() { sc.Timer(name).Record(time.Duration(op.I)) })
			get(name, labels).timers++
		case "vhist":
			name := fmt.Sprintf("hv_%d", op.Spec)
			sp := vspecs[op.Spec]
			p = try(func() { sc.Histogram(name, tally.ValueBuckets(append([]float64(nil), sp...))).RecordValue(op.F.V()) })
			s := get(name, labels)
			s.spec = sp
			s.samples = append(s.samples, op.F.V())
			for _, b := range sp {
				if op.F.V() == b {
					boundary = true
				}
			}
		case "dhist":
			name := fmt.Sprintf("hd_%d", op.Spec)
			sp := dspecs[op.Spec]
			p = try(func() { sc.Histogram(name, tally.DurationBuckets(append([]time.Duration(nil), sp...))).RecordDuration(time.Duration(op.I)) })
			s := get(name, labels)
			s.spec = nil
			for _, b := range sp {
				s.spec = append(s.spec, float64(b)/float64(time.Second))
				if time.Duration(op.I) == b {
					boundary = true
				}
			}
			// a duration sample is compared in the integer domain: remember the smallest bound >= d, in seconds
			v := math.Inf(1)
			for _, b := range sp {
				if b >= time.Duration(op.I) {
					v = float64(b) / float64(time.Second)
					break
				}
			}
			s.samples = append(s.samples, v)
		case "pass":
			p = try(func() { tally.VerifReportOnce(root) })
		case "conflict":
			cross = true
			nconf++
			name := fmt.Sprintf("x%d_%d", oi, op.N)
			before := len(cbErrs)
			other := root.Tagged(map[string]string{"other": "keys"})
			use := func(s tally.Scope, kind string) {
				switch kind {
				case "counter":
					s.Counter(name).Inc(1)
				case "gauge":
					s.Gauge(name).Update(1)
				case "timer":
					tm := s.Timer(name)
					tm.Record(time.Second)
					tm.Start().Stop()
				case "histogram":
					h := s.Histogram(name, tally.ValueBuckets{1, 2})
					h.RecordValue(1)
					h.RecordDuration(time.Second)
					h.Start().Stop()
				}
			}
			parts := strings.Split(op.What, "-")
			first, second := parts[0], parts[len(parts)-1]
			s2 := sc
			if second == "tagkeys" {
				second = first
				s2 = other
			}
			if p0 := try(func() { use(sc, first) }); p0 != nil {
				errs.Addf("op %d: first use of %s %q panicked: %v", oi, first, name, p0)
			}
			p = try(func() { use(s2, second); tally.VerifReportOnce(root) })
			if p == nil && len(cbErrs) == before && !(c.TimerHist && (op.What == "timer-then-histogram" || op.What == "histogram-then-timer")) {
				// a registration Prometheus accepted: nothing to check (e.g. the timer flavour made it legal)
				_ = before
			}
			if p != nil && p == interface{}(sentinel) && len(cbErrs) == before {
				errs.Addf("op %d: sentinel panic without a callback call?!", oi)
			}
			// a rejected second registration (same kind, other tag keys) must leave the first,
			// legitimate family exposed with what was recorded on it
			if strings.HasSuffix(op.What, "-other-tagkeys") && (p == nil || p == interface{}(sentinel)) {
				if p2 := try(func() { tally.VerifReportOnce(root) }); p2 != nil && p2 != interface{}(sentinel) {
					errs.Addf("op %d: report pass after the conflict panicked: %v", oi, p2)
				}
				fams, _ := reg.Gather()
				found := false
				for _, f := range fams {
					if f.GetName() != name {
						continue
					}
					found = true
					okv := false
					for _, m := range f.Metric {
						lbl := map[string]string{}
						for _, lp := range m.Label {
							lbl[lp.GetName()] = lp.GetValue()
						}
						if labelKey(lbl) != labelKey(labels) {
							continue
						}
						switch first {
						case "counter":
							okv = m.GetCounter().GetValue() == 1
						case "gauge":
							okv = m.GetGauge().GetValue() == 1
						case "timer":
							okv = m.GetSummary().GetSampleCount() == 2 || m.GetHistogram().GetSampleCount() == 2
						case "histogram":
							okv = m.GetHistogram().GetSampleCount() == 1
						}
					}
					if !okv {
						errs.Addf("op %d (%s): after the rejected registration the first %s %q%v no longer shows what was recorded on it: %v", oi, op.What, first, name, labels, f)
					}
				}
				if !found {
					errs.Addf("op %d (%s): after the rejected registration the family %q of the first, accepted %s is not exposed at all", oi, op.What, name, first)
				}
			}
		}
		if p != nil {
			if p == interface{}(sentinel) && c.PanicCB {
				continue
			}
			errs.Addf("op %d (%s %s): panic %v", oi, op.K, op.What, p)
		}
	}
	if p := try(func() { tally.VerifReportOnce(root) }); p != nil && !(p == interface{}(sentinel) && c.PanicCB) {
		errs.Addf("final report pass panicked: %v", p)
	}
	fams, err := reg.Gather()
	if err != nil {
		errs.Addf("Gather: %v", err)
	}
	seen := map[string]int{}
	for _, f := range fams {
		seen[f.GetName()]++
		want, ok := model[f.GetName()]
		if !ok {
			continue // families created by conflict ops are not value-checked
		}
		if len(f.Metric) != len(want) {
			errs.Addf("family %s has %d series, want %d (one per tag-value combination)", f.GetName(), len(f.Metric), len(want))
		}
		if len(want) >= 2 {
			multi = true
		}
		for _, m := range f.Metric {
			labels := map[string]string{}
			for _, lp := range m.Label {
				labels[lp.GetName()] = lp.GetValue()
			}
			s := want[labelKey(labels)]
			if s == nil {
				errs.Addf("family %s has an unexpected series %v", f.GetName(), labels)
				continue
			}
			switch {
			case strings.HasPrefix(f.GetName(), "c_"):
				if f.GetType() != dto.MetricType_COUNTER || m.GetCounter().GetValue() != s.counter {
					errs.Addf("%s%v: type %v value %v, want counter %v", f.GetName(), labels, f.GetType(), m.GetCounter().GetValue(), s.counter)
				}
			case strings.HasPrefix(f.GetName(), "g_"):
				if f.GetType() != dto.MetricType_GAUGE || math.Float64bits(m.GetGauge().GetValue()) != s.gauge {
					errs.Addf("%s%v: type %v value %v, want gauge %v", f.GetName(), labels, f.GetType(), m.GetGauge().GetValue(), pbt.F(s.gauge))
				}
			case strings.HasPrefix(f.GetName(), "t_"):
				var n uint64
				if c.TimerHist {
					n = m.GetHistogram().GetSampleCount()
				} else {
					n = m.GetSummary().GetSampleCount()
				}
				if int(n) != s.timers {
					errs.Addf("%s%v: %d timer samples, want %d", f.GetName(), labels, n, s.timers)
				}
			case strings.HasPrefix(f.GetName(), "hv_"), strings.HasPrefix(f.GetName(), "hd_"):
				h := m.GetHistogram()
				if int(h.GetSampleCount()) != len(s.samples) {
					errs.Addf("%s%v: total %d samples, want %d", f.GetName(), labels, h.GetSampleCount(), len(s.samples))
				}
				if len(h.Bucket) != len(s.spec) {
					errs.Addf("%s%v: %d buckets, want %d (%v)", f.GetName(), labels, len(h.Bucket), len(s.spec), s.spec)
				}
				for bi, b := range h.Bucket {
					if bi >= len(s.spec) {
						break
					}
					if b.GetUpperBound() != s.spec[bi] {
						errs.Addf("%s%v: bucket %d bound %v, want %v", f.GetName(), labels, bi, b.GetUpperBound(), s.spec[bi])
					}
					cnt := 0
					for _, v := range s.samples {
						if v <= s.spec[bi] {
							cnt++
						}
					}
					if int(b.GetCumulativeCount()) != cnt {
						errs.Addf("%s%v: cumulative count at le=%v is %d, want %d (samples %v)", f.GetName(), labels, s.spec[bi], b.GetCumulativeCount(), cnt, s.samples)
					}
				}
			}
		}
	}
	for name := range model {
		if seen[name] != 1 {
			errs.Addf("metric %s appears in %d families, want exactly 1", name, seen[name])
		}
	}
	out.NonTrivial = boundary || multi || cross
	if boundary {
		out.Classes = append(out.Classes, "sample-on-bound")
	}
	if multi {
		out.Classes = append(out.Classes, "multi-series")
	}
	if cross {
		out.Classes = append(out.Classes, "conflict")
	}
	if c.PanicCB {
		out.Classes = append(out.Classes, "panicking-callback")
	}
	out.Classes = append(out.Classes, fmt.Sprintf("callback-errors>0=%v", len(cbErrs) > 0))
	_ = nconf
	return out, errs.Err()
}

func TestC17(t *testing.T) {
	pbt.Main(t, pbt.Prop[Case]{
		ID: "C17", Name: "prometheus",
		Rule: "rapid-generated histories (1..30 ops) on a tally root whose cached reporter is the Prometheus reporter on a fresh registry (separator '_', Prometheus sanitizer; timers as summaries or histograms; error callback returning or panicking with a sentinel): counters (non-negative deltas), gauges (hostile float bits), timers, value and duration histograms with strictly increasing finite specs and samples on / one ulp or ns above / around the bounds, 1..4 tagged scopes with the same tag keys and different values, report passes, and conflict programs (a name reused for another kind: counter/gauge, timer/histogram, counter/timer, histogram/counter; or with other tag keys) whose result is then used through every method. Oracle after a final pass: Gather() shows counter == sum, gauge == last update (bits), cumulative bucket counts == #samples <= bound with bounds == spec (durations in seconds) and total == #samples, timer count == #values, one family per name and one series per tag-value combination; conflicts: no panic other than the sentinel, at any point, and a rejected registration with other tag keys leaves the first, accepted family exposed with its values. Non-trivial: a sample equal to a bound, or >=2 series in a family, or a cross-kind/tag-key conflict. Distinct: FNV-64 of the case JSON.",
		Gen:  gen, Run: run,
	})
}

package c17

import (
	"fmt"
	"testing"
	"time"

	prom "github.com/prometheus/client_golang/prometheus"
	dto "github.com/prometheus/client_model/go"
	tally "github.com/uber-go/tally/v4"
	tprom "github.com/uber-go/tally/v4/prometheus"
	"pgregory.net/rapid"

	"verifharness/internal/pbt"
)

// LabelCase: "all Prometheus-valid names and tag sets". Prometheus reserves the label "le" on
// histograms and "quantile" on summaries only; on every other kind they are ordinary label names,
// and so is everything that merely looks like them. Such registrations must be accepted (no error
// callback, no panic) and exposed like any other.
type LabelCase struct {
	TimerHist bool       `json:"timerHist"`
	Keys      []string   `json:"keys"`
	Series    [][]string `json:"series"` // tag values per key, one row per tagged scope
	Ops       []LabelOp  `json:"ops"`
	// Swap: two more counters (and gauges) whose names and tag keys are each other's: NameA tagged
	// {NameB: x} and NameB tagged {NameA: x} - two unrelated families
	Swap [2]string `json:"swap,omitempty"`
}

type LabelOp struct {
	K string `json:"k"` // counter gauge timer vhist dhist
	S int    `json:"s"`
	I int64  `json:"i"`
}

var labelKeyPool = []string{"le", "quantile", "le", "quantile", "a", "b", "type", "job", "instance", "help", "name", "Le", "LE", "le_", "_le", "l", "e", "quantile_", "quantiles", "q", "bucket", "sum", "count", "value", "id"}

// valid says whether Prometheus accepts a metric of this kind with these label names.
func (c LabelCase) valid(kind string) bool {
	for _, k := range c.Keys {
		switch {
		case k == "le" && (kind == "vhist" || kind == "dhist" || kind == "timer" && c.TimerHist):
			return false
		case k == "quantile" && kind == "timer" && !c.TimerHist:
			return false
		}
	}
	return true
}

func genLabels(t *rapid.T) LabelCase {
	c := LabelCase{TimerHist: rapid.Bool().Draw(t, "timerHist")}
	c.Keys = rapid.SliceOfNDistinct(rapid.SampledFrom(labelKeyPool), 1, 3, rapid.ID[string]).Draw(t, "keys")
	ns := rapid.IntRange(1, 3).Draw(t, "nseries")
	for i := 0; i < ns; i++ {
		var row []string
		for range c.Keys {
			row = append(row, rapid.SampledFrom([]string{"x", "y", "0_5", "Inf", ""}).Draw(t, "v"))
		}
		c.Series = append(c.Series, row)
	}
	var kinds []string
	for _, k := range []string{"counter", "gauge", "timer", "vhist", "dhist"} {
		if c.valid(k) {
			kinds = append(kinds, k)
		}
	}
	if rapid.IntRange(0, 2).Draw(t, "swap?") == 0 {
		ab := rapid.SliceOfNDistinct(rapid.SampledFrom([]string{"code", "status", "a", "b", "job", "le", "quantile", "zone"}), 2, 2, rapid.ID[string]).Draw(t, "swap")
		c.Swap = [2]string{ab[0], ab[1]}
	}
	n := rapid.IntRange(1, 12).Draw(t, "nops")
	for i := 0; i < n; i++ {
		c.Ops = append(c.Ops, LabelOp{K: rapid.SampledFrom(kinds).Draw(t, "k"), S: rapid.IntRange(0, ns-1).Draw(t, "s"), I: int64(rapid.IntRange(0, 5).Draw(t, "i"))})
	}
	return c
}

func runLabels(c LabelCase) (pbt.Outcome, error) {
	var errs pbt.Errs
	var out pbt.Outcome
	reg := prom.NewRegistry()
	tt := tprom.SummaryTimerType
	if c.TimerHist {
		tt = tprom.HistogramTimerType
	}
	var cbErrs []error
	rep := tprom.NewReporter(tprom.Options{Registerer: reg, DefaultTimerType: tt, OnRegisterError: func(err error) { cbErrs = append(cbErrs, err) }})
	so := tprom.DefaultSanitizerOpts
	root, _ := tally.NewRootScope(tally.ScopeOptions{CachedReporter: rep, Separator: tprom.DefaultSeparator, SanitizeOptions: &so, OmitCardinalityMetrics: true}, 0)
	scopes := make([]tally.Scope, len(c.Series))
	tagsOf := func(s int) map[string]string {
		m := map[string]string{}
		for i, k := range c.Keys {
			m[k] = c.Series[s][i]
		}
		return m
	}
	for i := range c.Series {
		scopes[i] = root.Tagged(tagsOf(i))
	}
	type val struct {
		counter float64
		gauge   float64
		n       uint64
	}
	want := map[string]map[string]*val{} // family -> labels -> values
	get := func(fam string, s int) *val {
		if want[fam] == nil {
			want[fam] = map[string]*val{}
		}
		lk := labelKey(tagsOf(s))
		if want[fam][lk] == nil {
			want[fam][lk] = &val{}
		}
		return want[fam][lk]
	}
	reserved := false
	for oi, op := range c.Ops {
		if !c.valid(op.K) {
			continue // replay of an edited case: outside the domain
		}
		for _, k := range c.Keys {
			if k == "le" || k == "quantile" {
				reserved = true
			}
		}
		sc := scopes[op.S]
		p := try(func() {
			switch op.K {
			case "counter":
				sc.Counter("m_counter").Inc(op.I)
				get("m_counter", op.S).counter += float64(op.I)
			case "gauge":
				sc.Gauge("m_gauge").Update(float64(op.I))
				get("m_gauge", op.S).gauge = float64(op.I)
			case "timer":
				sc.Timer("m_timer").Record(time.Duration(op.I) * time.Millisecond)
				get("m_timer", op.S).n++
			case "vhist":
				sc.Histogram("m_vhist", tally.ValueBuckets{1, 2, 3}).RecordValue(float64(op.I))
				get("m_vhist", op.S).n++
			case "dhist":
				sc.Histogram("m_dhist", tally.DurationBuckets{time.Millisecond, time.Second}).RecordDuration(time.Duration(op.I) * time.Millisecond)
				get("m_dhist", op.S).n++
			}
		})
		if p != nil {
			errs.Addf("op %d (%s with label names %v): panic %v", oi, op.K, c.Keys, p)
		}
	}
	if c.Swap[0] != "" && want[c.Swap[0]] == nil && want[c.Swap[1]] == nil {
		a, b := c.Swap[0], c.Swap[1]
		if p := try(func() {
			root.Tagged(map[string]string{b: "x"}).Counter(a).Inc(1)
			root.Tagged(map[string]string{a: "x"}).Counter(b).Inc(2)
			root.Tagged(map[string]string{b: "x"}).Gauge(a + "_g").Update(3)
			root.Tagged(map[string]string{a: "x"}).Gauge(b + "_g").Update(4)
		}); p != nil {
			errs.Addf("counters/gauges %q tagged {%s} and %q tagged {%s}: panic %v", a, b, b, a, p)
		}
		want[a] = map[string]*val{labelKey(map[string]string{b: "x"}): {counter: 1}}
		want[b] = map[string]*val{labelKey(map[string]string{a: "x"}): {counter: 2}}
		want[a+"_g"] = map[string]*val{labelKey(map[string]string{b: "x"}): {gauge: 3}}
		want[b+"_g"] = map[string]*val{labelKey(map[string]string{a: "x"}): {gauge: 4}}
		out.Classes = append(out.Classes, "name-and-key-swapped")
	}
	if p := try(func() { tally.VerifReportOnce(root) }); p != nil {
		errs.Addf("report pass panicked: %v", p)
	}
	if len(cbErrs) > 0 {
		errs.Addf("label names %v are valid for every kind used, yet the error callback received %v", c.Keys, cbErrs)
	}
	fams, err := reg.Gather()
	if err != nil {
		errs.Addf("Gather: %v", err)
	}
	seen := map[string]bool{}
	for _, f := range fams {
		w := want[f.GetName()]
		if w == nil {
			errs.Addf("unexpected family %s", f.GetName())
			continue
		}
		seen[f.GetName()] = true
		if len(f.Metric) != len(w) {
			errs.Addf("family %s has %d series, want %d", f.GetName(), len(f.Metric), len(w))
		}
		for _, m := range f.Metric {
			labels := map[string]string{}
			for _, lp := range m.Label {
				labels[lp.GetName()] = lp.GetValue()
			}
			v := w[labelKey(labels)]
			if v == nil {
				errs.Addf("family %s has an unexpected series %v", f.GetName(), labels)
				continue
			}
			switch f.GetType() {
			case dto.MetricType_COUNTER:
				if m.GetCounter().GetValue() != v.counter {
					errs.Addf("%s%v: counter %v, want %v", f.GetName(), labels, m.GetCounter().GetValue(), v.counter)
				}
			case dto.MetricType_GAUGE:
				if m.GetGauge().GetValue() != v.gauge {
					errs.Addf("%s%v: gauge %v, want %v", f.GetName(), labels, m.GetGauge().GetValue(), v.gauge)
				}
			case dto.MetricType_SUMMARY:
				if m.GetSummary().GetSampleCount() != v.n {
					errs.Addf("%s%v: %d timer values, want %d", f.GetName(), labels, m.GetSummary().GetSampleCount(), v.n)
				}
			case dto.MetricType_HISTOGRAM:
				if m.GetHistogram().GetSampleCount() != v.n {
					errs.Addf("%s%v: %d samples, want %d", f.GetName(), labels, m.GetHistogram().GetSampleCount(), v.n)
				}
			}
		}
	}
	for fam := range want {
		if !seen[fam] {
			errs.Addf("family %s (label names %v) is not exposed", fam, c.Keys)
		}
	}
	out.NonTrivial = reserved && len(want) >= 1
	if reserved {
		out.Classes = append(out.Classes, "le-or-quantile-label")
	}
	out.Classes = append(out.Classes, fmt.Sprintf("families=%d", len(want)))
	return out, errs.Err()
}

func TestLabels(t *testing.T) {
	pbt.Main(t, pbt.Prop[LabelCase]{
		ID: "C17", Name: "labels",
		Rule: "rapid-generated label-name sets (1..3 distinct keys from a pool around Prometheus's two kind-specific reserved names: le, quantile, Le, LE, le_, _le, quantile_, quantiles, bucket, sum, count, job, instance, ...) with 1..3 tag-value rows (values x, y, 0_5, Inf, empty) on a tally root over the Prometheus reporter (summary or histogram timers), and 1..12 records on counters, gauges, timers, value and duration histograms - only kinds for which Prometheus accepts the label set ('le' is excluded for histograms, 'quantile' for summaries, nothing else). Oracle: no panic, the error callback is never called, and after a pass Gather() shows every family with one series per row and the recorded sum / last value / value count / sample count. Non-trivial: the key set contains le or quantile. Distinct: FNV-64 of the case JSON.",
		Gen:  genLabels, Run: runLabels, HangAfter: 20 * time.Second,
	})
}

package c17

import (
	"fmt"
	"testing"
	"time"

	prom "github.com/prometheus/client_golang/prometheus"
	dto "github.com/prometheus/client_model/go"
	tally "github.com/uber-go/tally/v4"
	tprom "github.com/uber-go/tally/v4/prometheus"
	"pgregory.net/rapid"

	"verifharness/internal/pbt"
)

// DirectCase: the reporter used directly (Allocate* with the caller's tags, no scope and no
// sanitizer in front), as a second root scope sharing the reporter or any other caller of the
// CachedStatsReporter interface does. Label VALUES may be any string, in particular strings full of
// ',' and '=' for which different tag sets render to the same "k=v,k=v" text. "Metrics with the same
// name and tag keys but different tag values are separate series of one family."
type DirectCase struct {
	TimerHist bool        `json:"timerHist"`
	Rows      [][2]string `json:"rows"` // values of the label keys a and b
	Ops       []LabelOp   `json:"ops"`  // K: counter gauge timer vhist dhist; S: row; I: value
	Realloc   bool        `json:"realloc"`
}

func genDirect(t *rapid.T) DirectCase {
	c := DirectCase{TimerHist: rapid.Bool().Draw(t, "timerHist"), Realloc: rapid.Bool().Draw(t, "realloc")}
	piece := rapid.SampledFrom([]string{"x", "y", ",b=", ",", "=", "b", "a=", ",a=", "+", "x,b=y", ""})
	val := rapid.Custom(func(t *rapid.T) string {
		n := rapid.IntRange(0, 3).Draw(t, "n")
		s := ""
		for i := 0; i < n; i++ {
			s += piece.Draw(t, "p")
		}
		return s
	})
	nr := rapid.IntRange(2, 5).Draw(t, "nrows")
	for i := 0; i < nr; i++ {
		c.Rows = append(c.Rows, [2]string{val.Draw(t, "a"), val.Draw(t, "b")})
	}
	n := rapid.IntRange(2, 14).Draw(t, "nops")
	for i := 0; i < n; i++ {
		c.Ops = append(c.Ops, LabelOp{K: rapid.SampledFrom([]string{"counter", "counter", "gauge", "timer", "vhist", "dhist"}).Draw(t, "k"),
			S: rapid.IntRange(0, nr-1).Draw(t, "s"), I: int64(rapid.IntRange(1, 5).Draw(t, "i"))})
	}
	return c
}

func runDirect(c DirectCase) (pbt.Outcome, error) {
	var errs pbt.Errs
	var out pbt.Outcome
	reg := prom.NewRegistry()
	tt := tprom.SummaryTimerType
	if c.TimerHist {
		tt = tprom.HistogramTimerType
	}
	var cbErrs []error
	rep := tprom.NewReporter(tprom.Options{Registerer: reg, DefaultTimerType: tt, OnRegisterError: func(err error) { cbErrs = append(cbErrs, err) }})
	type val struct {
		counter float64
		gauge   float64
		n       uint64
	}
	want := map[string]map[string]*val{}
	get := func(fam string, tags map[string]string) *val {
		if want[fam] == nil {
			want[fam] = map[string]*val{}
		}
		lk := fmt.Sprintf("%q|%q", tags["a"], tags["b"])
		if want[fam][lk] == nil {
			want[fam][lk] = &val{}
		}
		return want[fam][lk]
	}
	// handles are kept per (kind,row) unless Realloc: then every op allocates again
	type hk struct {
		k string
		s int
	}
	counters := map[hk]tally.CachedCount{}
	gauges := map[hk]tally.CachedGauge{}
	timers := map[hk]tally.CachedTimer{}
	hists := map[hk]tally.CachedHistogram{}
	for oi, op := range c.Ops {
		tags := map[string]string{"a": c.Rows[op.S][0], "b": c.Rows[op.S][1]}
		k := hk{op.K, op.S}
		p := try(func() {
			switch op.K {
			case "counter":
				if counters[k] == nil || c.Realloc {
					counters[k] = rep.AllocateCounter("d_counter", tags)
				}
				counters[k].ReportCount(op.I)
				get("d_counter", tags).counter += float64(op.I)
			case "gauge":
				if gauges[k] == nil || c.Realloc {
					gauges[k] = rep.AllocateGauge("d_gauge", tags)
				}
				gauges[k].ReportGauge(float64(op.I))
				get("d_gauge", tags).gauge = float64(op.I)
			case "timer":
				if timers[k] == nil || c.Realloc {
					timers[k] = rep.AllocateTimer("d_timer", tags)
				}
				timers[k].ReportTimer(time.Duration(op.I) * time.Millisecond)
				get("d_timer", tags).n++
			case "vhist":
				if hists[k] == nil || c.Realloc {
					hists[k] = rep.AllocateHistogram("d_vhist", tags, tally.ValueBuckets{1, 2, 3})
				}
				hists[k].ValueBucket(1, 2).ReportSamples(op.I)
				get("d_vhist", tags).n += uint64(op.I)
			case "dhist":
				if hists[k] == nil || c.Realloc {
					hists[k] = rep.AllocateHistogram("d_dhist", tags, tally.DurationBuckets{time.Millisecond, time.Second})
				}
				hists[k].DurationBucket(time.Millisecond, time.Second).ReportSamples(op.I)
				get("d_dhist", tags).n += uint64(op.I)
			}
		})
		if p != nil {
			errs.Addf("op %d (%s, a=%q b=%q): panic %v", oi, op.K, tags["a"], tags["b"], p)
		}
	}
	if len(cbErrs) > 0 {
		errs.Addf("the error callback received %v for valid registrations", cbErrs)
	}
	fams, err := reg.Gather()
	if err != nil {
		errs.Addf("Gather: %v", err)
	}
	seen := map[string]bool{}
	multi := false
	for _, f := range fams {
		w := want[f.GetName()]
		if w == nil {
			errs.Addf("unexpected family %s", f.GetName())
			continue
		}
		seen[f.GetName()] = true
		if len(w) >= 2 {
			multi = true
		}
		if len(f.Metric) != len(w) {
			errs.Addf("family %s has %d series, want %d (one per distinct pair of label values)", f.GetName(), len(f.Metric), len(w))
		}
		for _, m := range f.Metric {
			labels := map[string]string{}
			for _, lp := range m.Label {
				labels[lp.GetName()] = lp.GetValue()
			}
			lk := fmt.Sprintf("%q|%q", labels["a"], labels["b"])
			v := w[lk]
			if v == nil {
				errs.Addf("family %s has an unexpected series %s", f.GetName(), lk)
				continue
			}
			switch f.GetType() {
			case dto.MetricType_COUNTER:
				if m.GetCounter().GetValue() != v.counter {
					errs.Addf("%s{%s}: counter %v, want %v", f.GetName(), lk, m.GetCounter().GetValue(), v.counter)
				}
			case dto.MetricType_GAUGE:
				if m.GetGauge().GetValue() != v.gauge {
					errs.Addf("%s{%s}: gauge %v, want %v", f.GetName(), lk, m.GetGauge().GetValue(), v.gauge)
				}
			case dto.MetricType_SUMMARY:
				if m.GetSummary().GetSampleCount() != v.n {
					errs.Addf("%s{%s}: %d timer values, want %d", f.GetName(), lk, m.GetSummary().GetSampleCount(), v.n)
				}
			case dto.MetricType_HISTOGRAM:
				if m.GetHistogram().GetSampleCount() != v.n {
					errs.Addf("%s{%s}: %d samples, want %d", f.GetName(), lk, m.GetHistogram().GetSampleCount(), v.n)
				}
			}
		}
	}
	for fam := range want {
		if !seen[fam] {
			errs.Addf("family %s is not exposed", fam)
		}
	}
	out.NonTrivial = multi
	out.Classes = append(out.Classes, fmt.Sprintf("families=%d", len(want)))
	return out, errs.Err()
}

func TestDirect(t *testing.T) {
	pbt.Main(t, pbt.Prop[DirectCase]{
		ID: "C17", Name: "direct",
		Rule: "rapid-generated direct use of the Prometheus reporter's CachedStatsReporter interface (no scope, no sanitizer in front): 2..5 label-value pairs for the keys a and b, each value 0..3 pieces from {x, y, ',b=', ',', '=', b, 'a=', ',a=', '+', 'x,b=y', ''} so that different pairs render to the same 'a=..,b=..' text, 2..14 records on counters, gauges, timers, value and duration histograms through kept or freshly allocated handles. Oracle: no panic, no error callback, Gather() shows per family exactly one series per distinct pair of label values with the recorded sum / last value / count. Non-trivial: a family with >= 2 series. Distinct: FNV-64 of the case JSON.",
		Gen:  genDirect, Run: runDirect, HangAfter: 20 * time.Second,
	})
}

package c17

import (
	"fmt"
	"sync"
	"testing"
	"time"

	prom "github.com/prometheus/client_golang/prometheus"
	tally "github.com/uber-go/tally/v4"
	tprom "github.com/uber-go/tally/v4/prometheus"
	"pgregory.net/rapid"

	"verifharness/internal/pbt"
)

// ConcCase: several goroutines make the FIRST use of the same counter / gauge /
// timer / histogram family at the same time, through scopes with the same tag
// keys and (mostly) different tag values, or directly on the reporter. No
// registration conflicts: the error callback must stay silent and every series
// must be exposed with what was recorded on it.
type ConcCase struct {
	TimerHist bool  `json:"timerHist"`
	Direct    bool  `json:"direct"` // Allocate* on the reporter directly instead of through tally scopes
	Values    []int `json:"values"` // per goroutine: index of its tag value (equal indices share a series)
	Kinds     []int `json:"kinds"`  // per goroutine: 0 counter 1 gauge 2 timer 3 histogram
	Rounds    int   `json:"rounds"`
}

func genConc(t *rapid.T) ConcCase {
	n := rapid.IntRange(2, 12).Draw(t, "n")
	c := ConcCase{TimerHist: rapid.Bool().Draw(t, "timerHist"), Direct: rapid.Bool().Draw(t, "direct"), Rounds: rapid.IntRange(1, 4).Draw(t, "rounds")}
	kind := rapid.IntRange(0, 3).Draw(t, "kind")
	for i := 0; i < n; i++ {
		c.Values = append(c.Values, rapid.IntRange(0, n-1).Draw(t, "v"))
		k := kind
		if rapid.IntRange(0, 4).Draw(t, "otherkind") == 0 {
			k = rapid.IntRange(0, 3).Draw(t, "k")
		}
		c.Kinds = append(c.Kinds, k)
	}
	return c
}

func runConc(c ConcCase) (pbt.Outcome, error) {
	var errs pbt.Errs
	for round := 0; round < c.Rounds; round++ {
		reg := prom.NewRegistry()
		var mu sync.Mutex
		var cbErrs []error
		tt := tprom.SummaryTimerType
		if c.TimerHist {
			tt = tprom.HistogramTimerType
		}
		rep := tprom.NewReporter(tprom.Options{Registerer: reg, DefaultTimerType: tt, OnRegisterError: func(err error) {
			mu.Lock()
			cbErrs = append(cbErrs, err)
			mu.Unlock()
		}})
		so := tprom.DefaultSanitizerOpts
		root, _ := tally.NewRootScope(tally.ScopeOptions{CachedReporter: rep, Separator: tprom.DefaultSeparator, SanitizeOptions: &so, OmitCardinalityMetrics: true}, 0)
		var wg sync.WaitGroup
		start := make(chan struct{})
		var pmu sync.Mutex
		var panics []string
		for gi := range c.Values {
			gi := gi
			wg.Add(1)
			go func() {
				defer wg.Done()
				defer func() {
					if p := recover(); p != nil {
						pmu.Lock()
						panics = append(panics, fmt.Sprint(p))
						pmu.Unlock()
					}
				}()
				tags := map[string]string{"shard": fmt.Sprintf("v%d", c.Values[gi])}
				<-start
				switch c.Kinds[gi] {
				case 0:
					if c.Direct {
						rep.AllocateCounter("cc", tags).ReportCount(int64(gi + 1))
					} else {
						root.Tagged(tags).Counter("cc").Inc(int64(gi + 1))
					}
				case 1:
					if c.Direct {
						rep.AllocateGauge("gg", tags).ReportGauge(float64(c.Values[gi] + 1))
					} else {
						root.Tagged(tags).Gauge("gg").Update(float64(c.Values[gi] + 1))
					}
				case 2:
					if c.Direct {
						rep.AllocateTimer("tt", tags).ReportTimer(time.Millisecond)
					} else {
						root.Tagged(tags).Timer("tt").Record(time.Millisecond)
					}
				case 3:
					if c.Direct {
						rep.AllocateHistogram("hh", tags, tally.ValueBuckets{1, 2}).ValueBucket(1, 2).ReportSamples(1)
					} else {
						root.Tagged(tags).Histogram("hh", tally.ValueBuckets{1, 2}).RecordValue(1.5)
					}
				}
			}()
		}
		close(start)
		wg.Wait()
		for _, p := range panics {
			errs.Addf("round %d: panic during concurrent first use: %s", round, p)
		}
		tally.VerifReportOnce(root)
		if len(cbErrs) > 0 {
			errs.Addf("round %d: %d registration error(s) reported although no registration conflicts with another (same name, same tag keys, same kind): %v", round, len(cbErrs), cbErrs[0])
		}
		fams, err := reg.Gather()
		if err != nil {
			errs.Addf("round %d: Gather: %v", round, err)
		}
		wantC := map[string]float64{}
		wantG := map[string]float64{}
		wantT := map[string]uint64{}
		wantH := map[string]uint64{}
		for gi, v := range c.Values {
			lk := fmt.Sprintf("v%d", v)
			switch c.Kinds[gi] {
			case 0:
				wantC[lk] += float64(gi + 1)
			case 1:
				wantG[lk] = float64(v + 1)
			case 2:
				wantT[lk]++
			case 3:
				wantH[lk]++
			}
		}
		seen := map[string]bool{}
		for _, f := range fams {
			for _, m := range f.Metric {
				lk := ""
				for _, lp := range m.Label {
					if lp.GetName() == "shard" {
						lk = lp.GetValue()
					}
				}
				seen[f.GetName()+"/"+lk] = true
				switch f.GetName() {
				case "cc":
					if m.GetCounter().GetValue() != wantC[lk] {
						errs.Addf("round %d: counter cc{shard=%s} = %v, want %v", round, lk, m.GetCounter().GetValue(), wantC[lk])
					}
				case "gg":
					if m.GetGauge().GetValue() != wantG[lk] {
						errs.Addf("round %d: gauge gg{shard=%s} = %v, want %v", round, lk, m.GetGauge().GetValue(), wantG[lk])
					}
				case "tt":
					n := m.GetSummary().GetSampleCount() + m.GetHistogram().GetSampleCount()
					if n != wantT[lk] {
						errs.Addf("round %d: timer tt{shard=%s} has %d samples, want %d", round, lk, n, wantT[lk])
					}
				case "hh":
					if m.GetHistogram().GetSampleCount() != wantH[lk] {
						errs.Addf("round %d: histogram hh{shard=%s} has %d samples, want %d", round, lk, m.GetHistogram().GetSampleCount(), wantH[lk])
					}
				}
			}
		}
		for name, want := range map[string]map[string]bool{"cc": keys(wantC), "gg": keys(wantG), "tt": keysU(wantT), "hh": keysU(wantH)} {
			for lk := range want {
				if !seen[name+"/"+lk] {
					errs.Addf("round %d: series %s{shard=%s} was recorded but is not exposed", round, name, lk)
				}
			}
		}
		if errs.Failed() {
			break
		}
	}
	return pbt.Outcome{NonTrivial: len(c.Values) >= 2, Classes: []string{fmt.Sprintf("goroutines=%d", len(c.Values))}}, errs.Err()
}

func keys(m map[string]float64) map[string]bool {
	r := map[string]bool{}
	for k := range m {
		r[k] = true
	}
	return r
}

func keysU(m map[string]uint64) map[string]bool {
	r := map[string]bool{}
	for k := range m {
		r[k] = true
	}
	return r
}

func TestConcurrent(t *testing.T) {
	pbt.Main(t, pbt.Prop[ConcCase]{
		ID: "C17", Name: "concurrent",
		Rule: "free-running mode (real parallelism, built with -race): 2..12 goroutines make the first use of the same counter, gauge, timer or histogram family at once (through tally scopes tagged with the same key and mostly different values, or with Allocate* on the reporter directly), 1..4 fresh reporters per case. No two requests conflict, so the oracle is: no registration error reaches the callback, no panic, and after a report pass every recorded series is exposed with its sum / value / sample count; no race report. Non-trivial: always (>=2 goroutines). The program is replayable, the schedule is not (replays retried).",
		Gen:  genConc, Run: runConc, Retries: 40, HangAfter: 60 * time.Second,
	})
}

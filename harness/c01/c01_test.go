// C01: counter increments are delivered exactly once (delta conservation),
// under every interleaving of incrementers with concurrent report passes.
package c01

import (
	"fmt"
	"math"
	"os"
	"strings"
	"sync/atomic"
	"testing"

	tally "github.com/uber-go/tally/v4"
	"pgregory.net/rapid"

	"verifharness/internal/model"
	"verifharness/internal/pbt"
	"verifharness/internal/rec"
	"verifharness/internal/sched"
	"verifharness/internal/sgen"
)

type IncOp struct {
	C int   `json:"c"`           // counter index, or histogram index when H
	D int64 `json:"d,omitempty"` // delta
	H bool  `json:"h,omitempty"` // histogram sample instead (value D%3)
}

type RepOp struct {
	K string `json:"k"` // pass | reacquire
	S int    `json:"s,omitempty"`
}

type Case struct {
	Cached   bool      `json:"cached"`
	Shards   uint      `json:"shards"`
	NSub     int       `json:"nsub"`
	Counters []int     `json:"counters"` // scope index per counter: 0 root, 1.. subscope
	Hists    []int     `json:"hists"`
	Incs     [][]IncOp `json:"incs"`
	Reps     [][]RepOp `json:"reps"`
	Sched    []int     `json:"sched"`
	// Filler: that many further counters and histograms are created in EVERY scope after the judged
	// ones and recorded on once before the threads start (a scope's metric tables grow; handles
	// handed out earlier must stay the ones the report pass looks at)
	Filler int `json:"filler,omitempty"`
	// Caps: what the recording reporter says about itself (rec.CapsOf): advisory only
	Caps int `json:"caps,omitempty"`
	// Extreme: histogram 0 is created with {-MaxFloat64, 1, MaxFloat64} (explicit extreme bounds make
	// zero-width first and last buckets, which is where -Inf and +Inf are counted) and the int64
	// extremes among the recorded values stand for -Inf and +Inf
	Extreme bool `json:"extreme,omitempty"`
	// Both: a plain AND a cached reporter are configured; conservation is judged over what the two
	// received together (the property does not say which of them is handed a delta)
	Both bool `json:"both,omitempty"`
	// San: the root has a sanitizer (alphanumerics and '_'); counters are named "c-<i>" (delivered as
	// "c_<i>") and every increment obtains its counter from the scope again, in the raw spelling
	San bool `json:"san,omitempty"`
}

var deltaPool = []int64{0, 1, 1, 1, 2, 3, -1, -2, 1 << 31, -(1 << 31), 9223372036854775807, -9223372036854775808, 1000}

func gen(t *rapid.T) Case {
	c := Case{Cached: rapid.Bool().Draw(t, "cached"), Shards: uint(rapid.SampledFrom([]int{1, 1, 2, 4}).Draw(t, "shards"))}
	c.NSub = rapid.IntRange(0, 2).Draw(t, "nsub")
	c.Caps = rapid.SampledFrom([]int{0, 0, 0, 1, 2, 3}).Draw(t, "caps")
	c.Extreme = rapid.IntRange(0, 3).Draw(t, "extreme") == 0
	c.Both = rapid.IntRange(0, 5).Draw(t, "both") == 0
	c.San = rapid.IntRange(0, 4).Draw(t, "san") == 0
	if rapid.IntRange(0, 9).Draw(t, "filler?") == 0 {
		c.Filler = rapid.IntRange(14, 24).Draw(t, "filler")
	}
	nc := rapid.IntRange(1, 3).Draw(t, "ncounters")
	for i := 0; i < nc; i++ {
		c.Counters = append(c.Counters, rapid.IntRange(0, c.NSub).Draw(t, "cscope"))
	}
	nh := rapid.IntRange(0, 2).Draw(t, "nhists")
	for i := 0; i < nh; i++ {
		c.Hists = append(c.Hists, rapid.IntRange(0, c.NSub).Draw(t, "hscope"))
	}
	ni := rapid.IntRange(1, 3).Draw(t, "nincrementers")
	for i := 0; i < ni; i++ {
		var ops []IncOp
		n := rapid.IntRange(1, 5).Draw(t, "nincs")
		for j := 0; j < n; j++ {
			if nh > 0 && rapid.IntRange(0, 3).Draw(t, "hist?") == 0 {
				hv := int64(rapid.IntRange(0, 2).Draw(t, "v"))
				if c.Extreme {
					hv = rapid.SampledFrom([]int64{0, 1, 2, math.MaxInt64, math.MinInt64, -5}).Draw(t, "xv")
				}
				ops = append(ops, IncOp{C: rapid.IntRange(0, nh-1).Draw(t, "h"), D: hv, H: true})
			} else {
				ci := rapid.IntRange(0, nc-1).Draw(t, "c")
				d := rapid.SampledFrom(deltaPool).Draw(t, "d")
				if c.Counters[ci] != 0 && d <= 0 {
					d = 1 // counters of closable subscopes only get positive deltas (bounds oracle)
				}
				ops = append(ops, IncOp{C: ci, D: d})
			}
		}
		c.Incs = append(c.Incs, ops)
	}
	nr := rapid.IntRange(1, 3).Draw(t, "nreporters")
	for i := 0; i < nr; i++ {
		var ops []RepOp
		n := rapid.IntRange(1, 3).Draw(t, "nreps")
		for j := 0; j < n; j++ {
			if c.NSub > 0 && rapid.IntRange(0, 3).Draw(t, "reacq?") == 0 {
				ops = append(ops, RepOp{K: "reacquire", S: rapid.IntRange(1, c.NSub).Draw(t, "s")})
			} else {
				ops = append(ops, RepOp{K: "pass"})
			}
		}
		c.Reps = append(c.Reps, ops)
	}
	c.Sched = sgen.Choices(t, 150, ni+nr)
	return c
}

// acct fields are atomics: if the machine is so busy that a thread is treated
// as externally blocked (detached), two controlled threads may really run at
// once, and the bookkeeping must stay exact then too.
type acct struct {
	sum        atomic.Int64 // wrapping sum of all increments
	before     atomic.Int64 // increments completed before Close of their scope was called
	signed     atomic.Bool  // a negative increment or a wrapping total was seen
	closable   bool
	everClosed atomic.Bool
}

func run(c Case) (pbt.Outcome, error) {
	var errs pbt.Errs
	var out pbt.Outcome
	log := &rec.Log{}
	opts := tally.ScopeOptions{OmitCardinalityMetrics: true}
	if c.Both {
		opts.Reporter = &rec.Stats{L: log, Child: 1, Caps: rec.CapsOf(c.Caps)}
		opts.CachedReporter = &rec.Cached{L: log, Child: 2, Caps: rec.CapsOf(c.Caps)}
	} else if c.Cached {
		opts.CachedReporter = &rec.Cached{L: log, Caps: rec.CapsOf(c.Caps)}
	} else {
		opts.Reporter = &rec.Stats{L: log, Caps: rec.CapsOf(c.Caps)}
	}
	if c.San {
		vc := tally.ValidCharacters{Ranges: tally.AlphanumericRange, Characters: []rune{'_', '.'}}
		opts.SanitizeOptions = &tally.SanitizeOptions{NameCharacters: vc, KeyCharacters: vc, ValueCharacters: vc, ReplacementCharacter: '_'}
	}
	root, _ := tally.VerifNewRootScope(opts, 0, c.Shards)
	scopes := []tally.Scope{root}
	for i := 1; i <= c.NSub; i++ {
		scopes = append(scopes, root.SubScope(fmt.Sprintf("s%d", i)))
	}
	name := func(scope int, n string) string {
		if scope == 0 {
			return n
		}
		return fmt.Sprintf("s%d.%s", scope, n)
	}
	counters := make([]tally.Counter, len(c.Counters))
	cacct := make([]*acct, len(c.Counters))
	cname := make([]string, len(c.Counters))
	craw := make([]string, len(c.Counters))
	for i, sc := range c.Counters {
		cname[i] = name(sc, fmt.Sprintf("c%d", i))
		craw[i] = fmt.Sprintf("c%d", i)
		if c.San {
			cname[i], craw[i] = name(sc, fmt.Sprintf("c_%d", i)), fmt.Sprintf("c-%d", i)
		}
		counters[i] = scopes[sc].Counter(craw[i])
		cacct[i] = &acct{closable: sc != 0}
	}
	hists := make([]tally.Histogram, len(c.Hists))
	// per (histogram, bucket) accounting: every second histogram uses {1}, a different specification
	// with the same identity in the root's bucket cache as {0,1}; each must still be delivered under
	// the bounds it was created with
	hacct := make([]map[float64]*acct, len(c.Hists))
	hname := make([]string, len(c.Hists))
	hpairs := make([][]model.VPair, len(c.Hists))
	for i, sc := range c.Hists {
		hname[i] = name(sc, fmt.Sprintf("h%d", i))
		spec := tally.ValueBuckets{0, 1}
		if i%2 == 1 {
			spec = tally.ValueBuckets{1}
		}
		if i == 0 && c.Extreme {
			spec = tally.ValueBuckets{-math.MaxFloat64, 1, math.MaxFloat64}
		}
		hists[i] = scopes[sc].Histogram(fmt.Sprintf("h%d", i), spec)
		hpairs[i] = model.ValuePairs([]float64(spec))
		hacct[i] = map[float64]*acct{}
		for _, p := range hpairs[i] {
			hacct[i][p.Hi] = &acct{closable: sc != 0}
		}
	}
	fillers := map[string]int64{}
	for si, sc := range scopes {
		for i := 0; i < c.Filler; i++ {
			sc.Counter(fmt.Sprintf("fc%d", i)).Inc(1)
			fillers[name(si, fmt.Sprintf("fc%d", i))] = 1
			sc.Histogram(fmt.Sprintf("fh%d", i), tally.ValueBuckets{0, 1}).RecordValue(0)
			fillers[name(si, fmt.Sprintf("fh%d", i))+"|<=0"] = 1
		}
	}
	closedScope := make([]atomic.Bool, c.NSub+1)

	s := sched.New(c.Sched)
	s.MaxSteps += 3000 * c.Filler * (c.NSub + 1) // every filler metric adds hook visits to every pass
	log.OnCall = s.Yield
	tally.VerifSetHooks(&tally.VerifHooks{Yield: s.Yield, Lock: s.Lock})
	defer tally.VerifSetHooks(nil)

	for ti, ops := range c.Incs {
		ops := ops
		s.Go(fmt.Sprintf("inc%d", ti), func() {
			for _, op := range ops {
				if op.H {
					v := float64(op.D)
					if c.Extreme && op.D == math.MaxInt64 {
						v = math.Inf(1)
					} else if c.Extreme && op.D == math.MinInt64 {
						v = math.Inf(-1)
					}
					hi, _ := model.ValueBucketOf(hpairs[op.C], v)
					a := hacct[op.C][hi]
					closedBefore := closedScope[c.Hists[op.C]].Load()
					hists[op.C].RecordValue(v)
					a.sum.Add(1)
					if !closedBefore && !closedScope[c.Hists[op.C]].Load() {
						a.before.Add(1)
					}
				} else {
					a := cacct[op.C]
					closedBefore := closedScope[c.Counters[op.C]].Load()
					if a.closable && (op.D <= 0 || op.D > 1000000) {
						op.D = 1 // bounds oracle of closable scopes needs small positive deltas
					}
					if c.San {
						// asked for again by its raw name: the same counter, under its one sanitized name
						if again := scopes[c.Counters[op.C]].Counter(craw[op.C]); again != counters[op.C] && !closedScope[c.Counters[op.C]].Load() {
							errs.Addf("Counter(%q) asked for again returned a different object", craw[op.C])
						}
					}
					counters[op.C].Inc(op.D)
					if cur := a.sum.Load(); op.D < 0 || cur+op.D < cur || cur < 0 {
						// a negative increment, or a total that wraps around int64: the
						// "no negative delta" clause is not judged for this counter
						a.signed.Store(true)
					}
					a.sum.Add(op.D)
					// completed before Close was called: Close had not been called when Inc returned
					if !closedBefore && !closedScope[c.Counters[op.C]].Load() {
						a.before.Add(op.D)
					}
				}
				s.Yield("harness:after-inc")
			}
		})
	}
	for ti, ops := range c.Reps {
		ops := ops
		s.Go(fmt.Sprintf("rep%d", ti), func() {
			for _, op := range ops {
				switch op.K {
				case "pass":
					tally.VerifReportLoopRun(root)
				case "reacquire":
					closedScope[op.S].Store(true)
					for i, sc := range c.Counters {
						if sc == op.S {
							cacct[i].everClosed.Store(true)
						}
					}
					for i, sc := range c.Hists {
						if sc == op.S {
							for _, a := range hacct[i] {
								a.everClosed.Store(true)
							}
						}
					}
					_ = scopes[op.S].(interface{ Close() error }).Close()
					s.Yield("harness:closed")
					root.SubScope(fmt.Sprintf("s%d", op.S))
				}
				s.Yield("harness:after-rep")
			}
		})
	}
	res := s.Run()
	lastOptions = res.Options
	tally.VerifSetHooks(nil)
	log.OnCall = nil
	for _, p := range res.Panics {
		errs.Addf("panic in thread %s: %s\n%s", p.Thread, p.Value, p.Stack)
	}
	if res.Deadlock || res.Hang || res.StepLimit {
		if res.Hang {
			errs.Poison() // a thread is still blocked inside the library: stop this process after saving the case
		}
		errs.Addf("threads did not finish: deadlock=%v hang=%v steplimit=%v: %s", res.Deadlock, res.Hang, res.StepLimit, res.Detail)
		return out, errs.Err()
	}

	// one sequential pass after activity has stopped, then a second one that must be silent
	tally.VerifReportOnce(root)
	mark := log.Len()
	tally.VerifReportOnce(root)
	events := log.Events()
	for _, e := range events[mark:] {
		if e.Kind == rec.KCounter || e.Kind == rec.KHValue {
			errs.Addf("a report cycle with no new increments delivered %v", e)
		}
	}
	delivered := map[string]int64{}
	negative := map[string]bool{}
	for _, e := range events {
		switch e.Kind {
		case rec.KCounter:
			if e.I == 0 {
				errs.Addf("zero delta delivered: %v", e)
			}
			delivered[e.Name] += e.I
			if e.I < 0 {
				negative[e.Name] = true
			}
		case rec.KHValue:
			if e.I == 0 {
				errs.Addf("zero samples delivered: %v", e)
			}
			k := fmt.Sprintf("%s|<=%v", e.Name, e.Hi)
			delivered[k] += e.I
			if e.I < 0 {
				negative[k] = true
			}
		}
	}
	judge := func(n string, a *acct) {
		got := delivered[n]
		if a.everClosed.Load() {
			if got < a.before.Load() || got > a.sum.Load() {
				errs.Addf("%s (scope closed and re-acquired during the run): delivered total %d, must be within [%d (completed before Close), %d (all increments)]", n, got, a.before.Load(), a.sum.Load())
			}
		} else if got != a.sum.Load() {
			errs.Addf("%s: delivered total %d, sum of increments %d", n, got, a.sum.Load())
		}
		if !a.signed.Load() && negative[n] {
			errs.Addf("%s: a negative delta was delivered although every increment was non-negative", n)
		}
	}
	for i := range counters {
		judge(cname[i], cacct[i])
	}
	for i := range hists {
		for hi, a := range hacct[i] {
			k := fmt.Sprintf("%s|<=%v", hname[i], hi)
			judge(k, a)
			delete(delivered, k)
		}
	}
	for k, want := range fillers {
		if delivered[k] != want {
			errs.Addf("filler metric %s (recorded once before the threads started): delivered total %d", k, delivered[k])
		}
		delete(delivered, k)
	}
	if c.Filler > 0 {
		out.Classes = append(out.Classes, "many-metrics-in-one-scope")
	}
	for k := range delivered {
		if strings.Contains(k, "|<=") {
			errs.Addf("histogram samples delivered under %s: the histogram has no such bucket", k)
		}
	}

	pre := sched.CountPreempted(res.Trace, "counter.value:")
	out.NonTrivial = pre > 0
	if pre > 0 {
		out.Classes = append(out.Classes, "preempted-delta-window")
	}
	if sched.PreemptedAt(res.Trace, "registry.", "scope.report") {
		out.Classes = append(out.Classes, "preempted-pass")
	}
	out.Classes = append(out.Classes, fmt.Sprintf("switches=%d", min(res.Switches/5*5, 40)))
	if res.Detaches > 0 {
		out.Classes = append(out.Classes, "detached")
	}
	return out, errs.Err()
}

func min(a, b int) int {
	if a < b {
		return a
	}
	return b
}

func TestC01(t *testing.T) {
	pbt.Main(t, pbt.Prop[Case]{
		ID: "C01", Name: "sched",
		Rule: "cooperative-scheduler mode: rapid generates a program (1..3 counters and 0..2 histograms on the root and 0..2 subscopes, 1..3 incrementer threads with deltas from {0,+-1,+-2,+-2^31,int64 extremes}, 1..3 reporter threads each running 1..3 modelled ticker passes or close-then-re-acquire of a subscope; plain/cached; shard count 1/2/4) AND the schedule (<=150 choices at the verif yield points between the individual atomic loads/stores of the delta computation, per metric, per scope, at lock hand-overs and at every reporter call). After all threads finish: one sequential pass, then a second that must deliver nothing. Oracle per (name): delivered total == wrapping sum of increments (bounds [completed-before-Close, all] for scopes closed during the run), no zero delivery, no negative delta when all increments are non-negative, no panic/deadlock. Non-trivial: the trace shows another thread running while a pass sat inside a counter's load/load/store window. Distinct: FNV-64 of program+schedule JSON.",
		Gen:  gen, Run: run, Retries: 30,
	})
}

// ---------------------------------------------------------------- bounded-exhaustive micro-scenarios

var lastOptions []int

func runRecordingOptions(c Case) (pbt.Outcome, error) {
	out, err := run(c)
	return out, err
}

// TestExhaustive enumerates EVERY schedule with at most 3 preemptions of two
// deterministic micro-scenarios (one counter on the root, shard count 1, so no
// map-order or shard-seed randomness): one incrementer doing two increments
// against two concurrent report passes, plain and cached.
func TestExhaustive(t *testing.T) {
	prop := pbt.Prop[Case]{
		ID: "C01", Name: "exhaustive",
		Rule: "bounded-exhaustive mode: ALL schedules with at most 3 (quick) / 5 (thorough) non-default scheduler choices (preemptions) of two fixed deterministic micro-scenarios {one counter on the root, shard count 1, one incrementer thread doing Inc(1), Inc(2), two reporter threads doing one modelled pass each; plain and cached}, enumerated depth-first over the verif yield points; same oracle as the generated mode. Non-trivial: a pass was preempted inside the counter's delta window.",
		Run:  run,
	}
	pbt.MainEnum(t, prop, func(emit func(c Case) bool) bool {
		all := true
		for _, cached := range []bool{false, true} {
			base := Case{Cached: cached, Shards: 1, Counters: []int{0}, Incs: [][]IncOp{{{C: 0, D: 1}, {C: 0, D: 2}}}, Reps: [][]RepOp{{{K: "pass"}}, {{K: "pass"}}}}
			_, ex := sched.Enumerate(enumBound(), 3000000, func(prefix []int) ([]int, bool) {
				c := base
				c.Sched = append([]int(nil), prefix...)
				ok := emit(c)
				return lastOptions, ok
			})
			all = all && ex
		}
		return all
	})
}

func enumBound() int {
	if os.Getenv("VERIF_TIER") == "thorough" {
		return 5
	}
	return 3
}

package c01

import (
	"fmt"
	"sync"
	"testing"
	"time"

	tally "github.com/uber-go/tally/v4"
	"pgregory.net/rapid"

	"verifharness/internal/pbt"
	"verifharness/internal/rec"
)

// BurstCase: the very first increments and samples of fresh counters and histogram buckets, made by
// several goroutines at the same moment. Conservation holds from the first increment on: whatever a
// metric does on first use (allocate, register, initialise lazily) must not lose an increment that
// raced with it. The scenario is repeated on fresh roots, the goroutines released together each
// time, because the window in question exists once per metric.
type BurstCase struct {
	Cached  bool      `json:"cached"`
	Writers int       `json:"writers"`
	Deltas  []int64   `json:"deltas"`  // per writer: counter increments, in order
	Samples []float64 `json:"samples"` // per writer: histogram samples, in order
	Dur     bool      `json:"dur"`     // duration histogram
	Handles bool      `json:"handles"` // metrics obtained before the goroutines start (else each asks the scope)
	Rounds  int       `json:"rounds"`
	Sub     bool      `json:"sub"` // on a tagged subscope
}

func genBurst(t *rapid.T) BurstCase {
	return BurstCase{
		Cached:  rapid.Bool().Draw(t, "cached"),
		Writers: rapid.IntRange(2, 8).Draw(t, "writers"),
		Deltas:  rapid.SliceOfN(rapid.SampledFrom([]int64{1, 1, 2, 3, 7, 1000}), 1, 4).Draw(t, "deltas"),
		Samples: rapid.SliceOfN(rapid.SampledFrom([]float64{-1, 0, 0.5, 1, 1.5, 2, 5, 1e9}), 1, 6).Draw(t, "samples"),
		Dur:     rapid.Bool().Draw(t, "dur"),
		Handles: rapid.Bool().Draw(t, "handles"),
		Rounds:  rapid.SampledFrom([]int{1, 20, 100}).Draw(t, "rounds"),
		Sub:     rapid.Bool().Draw(t, "sub"),
	}
}

func runBurst(c BurstCase) (pbt.Outcome, error) {
	var out pbt.Outcome
	rounds := c.Rounds
	if rounds < 1 {
		rounds = 1
	}
	for r := 0; r < rounds; r++ {
		if err := burstOnce(c); err != nil {
			return out, fmt.Errorf("round %d of %d: %v", r+1, rounds, err)
		}
	}
	out.NonTrivial = c.Writers >= 2
	out.Classes = append(out.Classes, fmt.Sprintf("rounds=%d", rounds))
	if c.Handles {
		out.Classes = append(out.Classes, "handles-obtained-up-front")
	}
	return out, nil
}

func burstOnce(c BurstCase) error {
	var errs pbt.Errs
	log := &rec.Log{}
	opts := tally.ScopeOptions{OmitCardinalityMetrics: true}
	if c.Cached {
		opts.CachedReporter = &rec.Cached{L: log}
	} else {
		opts.Reporter = &rec.Stats{L: log}
	}
	root, closer := tally.VerifNewRootScope(opts, 0, 0)
	var sc tally.Scope = root
	if c.Sub {
		sc = root.Tagged(map[string]string{"t": "1"})
	}
	vb := tally.ValueBuckets{0, 1, 2}
	db := tally.DurationBuckets{0, time.Second, 2 * time.Second}
	hist := func() tally.Histogram {
		if c.Dur {
			return sc.Histogram("h", db)
		}
		return sc.Histogram("h", vb)
	}
	var cnt tally.Counter
	var h tally.Histogram
	if c.Handles {
		cnt, h = sc.Counter("c"), hist()
	}
	start := make(chan struct{})
	var wg sync.WaitGroup
	for w := 0; w < c.Writers; w++ {
		wg.Add(1)
		go func() {
			defer wg.Done()
			myC, myH := cnt, h
			<-start
			if !c.Handles {
				myC, myH = sc.Counter("c"), hist()
			}
			for i := 0; i < len(c.Deltas) || i < len(c.Samples); i++ {
				if i < len(c.Samples) {
					if c.Dur {
						myH.RecordDuration(time.Duration(c.Samples[i] * float64(time.Second)))
					} else {
						myH.RecordValue(c.Samples[i])
					}
				}
				if i < len(c.Deltas) {
					myC.Inc(c.Deltas[i])
				}
			}
		}()
	}
	close(start)
	wg.Wait()
	tally.VerifReportOnce(root)
	_ = closer.Close()
	var wantC int64
	for _, d := range c.Deltas {
		wantC += d * int64(c.Writers)
	}
	wantH := map[float64]int64{} // by upper bound of the bucket (seconds for durations)
	for _, v := range c.Samples {
		up := 1e300
		for _, b := range []float64{0, 1, 2} {
			if v <= b {
				up = b
				break
			}
		}
		wantH[up] += int64(c.Writers)
	}
	var gotC int64
	gotH := map[float64]int64{}
	for _, e := range log.Events() {
		switch e.Kind {
		case rec.KCounter:
			if e.Name == "c" {
				gotC += e.I
			}
		case rec.KHValue:
			up := e.Hi
			if up > 1e299 {
				up = 1e300
			}
			gotH[up] += e.I
		case rec.KHDuration:
			up := e.DHi.Seconds()
			if e.DHi > 1000*time.Hour {
				up = 1e300
			}
			gotH[up] += e.I
		}
	}
	if gotC != wantC {
		errs.Addf("counter c: delivered %d, %d goroutines each added %v at the same moment: want %d", gotC, c.Writers, c.Deltas, wantC)
	}
	for up, w := range wantH {
		if gotH[up] != w {
			errs.Addf("histogram h, bucket with upper bound %v: %d samples delivered, %d recorded (%d goroutines each recorded %v at the same moment)", up, gotH[up], w, c.Writers, c.Samples)
		}
	}
	for up, g := range gotH {
		if _, ok := wantH[up]; !ok && g != 0 {
			errs.Addf("histogram h, bucket with upper bound %v: %d samples delivered, none recorded there", up, g)
		}
	}
	return errs.Err()
}

func TestBurst(t *testing.T) {
	pbt.Main(t, pbt.Prop[BurstCase]{
		ID: "C01", Name: "burst",
		Rule: "free-running mode (real goroutines, -race): on a fresh root (plain/cached, root or tagged subscope) 2..8 goroutines are released together and each makes 1..4 counter increments and 1..6 value or duration histogram samples (on, between and outside the bounds 0,1,2) - through handles obtained up front or asked for by each goroutine - so that the first increments of a counter and the first samples of each bucket coincide; repeated on 1/20/100 fresh roots; then one pass and Close. Oracle: the delivered counter total and the delivered sample count of every bucket equal what was recorded, nothing elsewhere. Non-trivial: >=2 goroutines. Free-running: a failing case is re-run up to 60 times before it counts as reproduced.",
		Gen:  genBurst, Run: runBurst, Retries: 60, HangAfter: 120 * time.Second,
	})
}

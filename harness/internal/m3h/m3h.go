// Package m3h holds helpers shared by the M3 checks: datagram decoding and
// reference size computations with the real thrift encoder.
package m3h

import (
	"bytes"
	"fmt"
	"math"
	"sort"
	"strings"

	customtransport "github.com/uber-go/tally/v4/m3/customtransports"
	m3thrift "github.com/uber-go/tally/v4/m3/thrift/v2"
	"github.com/uber-go/tally/v4/thirdparty/github.com/apache/thrift/lib/go/thrift"
)

// Factory returns the protocol factory for the wire protocol.
func Factory(binary bool) thrift.TProtocolFactory {
	if binary {
		return thrift.NewTBinaryProtocolFactoryDefault()
	}
	return thrift.NewTCompactProtocolFactory()
}

// Decode decodes one datagram as exactly one one-way emitMetricBatchV2 message
// with no trailing bytes.
func Decode(binary bool, d []byte) (seq int32, batch m3thrift.MetricBatch, err error) {
	defer func() {
		if r := recover(); r != nil {
			err = fmt.Errorf("decoder panicked: %v", r)
		}
	}()
	tr, _ := customtransport.NewTBufferedReadTransport(bytes.NewBuffer(d))
	p := Factory(binary).GetProtocol(tr)
	name, typ, seq, e := p.ReadMessageBegin()
	if e != nil {
		return 0, batch, fmt.Errorf("message header: %v", e)
	}
	if name != "emitMetricBatchV2" || typ != thrift.ONEWAY {
		return seq, batch, fmt.Errorf("message is %q type %v, want one-way emitMetricBatchV2", name, typ)
	}
	var args m3thrift.M3EmitMetricBatchV2Args
	if e := args.Read(p); e != nil {
		return seq, batch, fmt.Errorf("arguments: %v", e)
	}
	if e := p.ReadMessageEnd(); e != nil {
		return seq, batch, fmt.Errorf("message end: %v", e)
	}
	if rest := tr.RemainingBytes(); rest != 0 {
		return seq, batch, fmt.Errorf("%d trailing bytes after the message", rest)
	}
	return seq, args.Batch, nil
}

// MessageSize is the number of bytes of a one-way emitMetricBatchV2 message
// carrying batch with sequence id seq, measured with the real encoder.
func MessageSize(binary bool, seq int32, batch m3thrift.MetricBatch) int {
	mem := thrift.NewTMemoryBuffer()
	p := Factory(binary).GetProtocol(mem)
	_ = p.WriteMessageBegin("emitMetricBatchV2", thrift.ONEWAY, seq)
	args := m3thrift.M3EmitMetricBatchV2Args{Batch: batch}
	_ = args.Write(p)
	_ = p.WriteMessageEnd()
	_ = p.Flush()
	return mem.Len()
}

// MetricSize is the encoded size of one metric.
func MetricSize(binary bool, m m3thrift.Metric) int {
	mem := thrift.NewTMemoryBuffer()
	p := Factory(binary).GetProtocol(mem)
	_ = m.Write(p)
	_ = p.Flush()
	return mem.Len()
}

// IsInternal reports whether a decoded metric is one of the reporter's own.
func IsInternal(name string) bool { return strings.HasPrefix(name, "tally.internal.") }

// Canon renders a decoded metric canonically (tags as a sorted set), ignoring
// the timestamp.
func Canon(m m3thrift.Metric) string {
	tags := make([]string, 0, len(m.Tags))
	for _, t := range m.Tags {
		tags = append(tags, fmt.Sprintf("%d:%s=%d:%s", len(t.Name), t.Name, len(t.Value), t.Value))
	}
	sort.Strings(tags)
	return fmt.Sprintf("%d:%s|k%d|c%d|g%016x|t%d|%s", len(m.Name), m.Name, m.Value.MetricType, m.Value.Count, math.Float64bits(m.Value.Gauge), m.Value.Timer, strings.Join(tags, ","))
}

// Package rec holds recording reporters: every call made by the library is
// appended, with deep copies of its arguments, to one ordered log that the
// oracles judge. Harness threads add markers to the same log, so the log order
// is the global order of a cooperative schedule.
package rec

import (
	"fmt"
	"math"
	"reflect"
	"sort"
	"strings"
	"sync"
	"time"

	tally "github.com/uber-go/tally/v4"
)

// Kinds of events.
const (
	KCounter   = "counter"
	KGauge     = "gauge"
	KTimer     = "timer"
	KHValue    = "hvalue"
	KHDuration = "hduration"
	KFlush     = "flush"
	KClose     = "close"
	KCaps      = "caps"
	KAllocC    = "alloc-counter"
	KAllocG    = "alloc-gauge"
	KAllocT    = "alloc-timer"
	KAllocH    = "alloc-histogram"
	KBucketV   = "bucket-value"
	KBucketD   = "bucket-duration"
	KMark      = "mark"
)

// Event is one reporter call (or harness marker).
type Event struct {
	Seq     int
	Kind    string
	Name    string
	Tags    map[string]string // deep copy taken at call time
	TagsPtr uintptr           // identity of the map object that was passed
	TagsNil bool
	I       int64   // counter delta / samples / timer nanos
	F       float64 // gauge value
	Lo, Hi  float64 // value bucket bounds
	DLo     time.Duration
	DHi     time.Duration
	Spec    tally.Buckets // histogram specification object passed
	Handle  int           // cached handle id (alloc and report-through-handle)
	Parent  int           // for bucket allocations: histogram handle id
	Mark    string
	Thread  int
}

func (e Event) String() string {
	switch e.Kind {
	case KMark:
		return fmt.Sprintf("#%d mark %s", e.Seq, e.Mark)
	case KGauge:
		return fmt.Sprintf("#%d gauge %q %v h%d = %v (bits %016x)", e.Seq, e.Name, e.Tags, e.Handle, e.F, math.Float64bits(e.F))
	case KHValue, KBucketV:
		return fmt.Sprintf("#%d %s %q %v h%d [%v,%v] n=%d", e.Seq, e.Kind, e.Name, e.Tags, e.Handle, e.Lo, e.Hi, e.I)
	case KHDuration, KBucketD:
		return fmt.Sprintf("#%d %s %q %v h%d [%v,%v] n=%d", e.Seq, e.Kind, e.Name, e.Tags, e.Handle, int64(e.DLo), int64(e.DHi), e.I)
	default:
		return fmt.Sprintf("#%d %s %q %v h%d %d", e.Seq, e.Kind, e.Name, e.Tags, e.Handle, e.I)
	}
}

// Log is the ordered event log.
type Log struct {
	mu     sync.Mutex
	events []Event
	// OnCall, when set, is invoked at the start of every reporter call
	// (before the event is logged): the scheduler's yield.
	OnCall func(site string)
	// Gate, when set, is invoked after the event is logged.
	Gate func(e Event)
}

func (l *Log) add(e Event) Event {
	l.mu.Lock()
	e.Seq = len(l.events)
	l.events = append(l.events, e)
	l.mu.Unlock()
	if l.Gate != nil {
		l.Gate(e)
	}
	return e
}

// Mark appends a harness marker and returns its sequence number.
func (l *Log) Mark(format string, a ...interface{}) int {
	return l.add(Event{Kind: KMark, Mark: fmt.Sprintf(format, a...)}).Seq
}

// Events returns a copy of the log so far.
func (l *Log) Events() []Event {
	l.mu.Lock()
	defer l.mu.Unlock()
	return append([]Event(nil), l.events...)
}

func (l *Log) Len() int {
	l.mu.Lock()
	defer l.mu.Unlock()
	return len(l.events)
}

func (l *Log) call(site string) {
	if l.OnCall != nil {
		l.OnCall(site)
	}
}

func copyTags(m map[string]string) (map[string]string, uintptr, bool) {
	if m == nil {
		return nil, 0, true
	}
	c := make(map[string]string, len(m))
	for k, v := range m {
		c[k] = v
	}
	return c, reflect.ValueOf(m).Pointer(), false
}

// TagKey renders a tag map canonically and unambiguously (length-prefixed).
func TagKey(m map[string]string) string {
	keys := make([]string, 0, len(m))
	for k := range m {
		keys = append(keys, k)
	}
	sort.Strings(keys)
	var b strings.Builder
	for _, k := range keys {
		fmt.Fprintf(&b, "%d:%s=%d:%s;", len(k), k, len(m[k]), m[k])
	}
	return b.String()
}

// ID renders (name, tags) canonically and unambiguously.
func ID(name string, tags map[string]string) string {
	return fmt.Sprintf("%d:%s|%s", len(name), name, TagKey(tags))
}

// ---------------------------------------------------------------- plain

// Stats is a recording tally.StatsReporter.
type Stats struct {
	L       *Log
	Child   int // stamped into Event.Thread
	Caps    tally.Capabilities
	Tagging bool
}

func NewStats() *Stats { return &Stats{L: &Log{}} }

func (r *Stats) ReportCounter(name string, tags map[string]string, value int64) {
	r.L.call("rep:counter")
	t, p, n := copyTags(tags)
	r.L.add(Event{Thread: r.Child, Kind: KCounter, Name: name, Tags: t, TagsPtr: p, TagsNil: n, I: value})
}

func (r *Stats) ReportGauge(name string, tags map[string]string, value float64) {
	r.L.call("rep:gauge")
	t, p, n := copyTags(tags)
	r.L.add(Event{Thread: r.Child, Kind: KGauge, Name: name, Tags: t, TagsPtr: p, TagsNil: n, F: value})
}

func (r *Stats) ReportTimer(name string, tags map[string]string, interval time.Duration) {
	r.L.call("rep:timer")
	t, p, n := copyTags(tags)
	r.L.add(Event{Thread: r.Child, Kind: KTimer, Name: name, Tags: t, TagsPtr: p, TagsNil: n, I: int64(interval)})
}

func (r *Stats) ReportHistogramValueSamples(name string, tags map[string]string, buckets tally.Buckets, lo, hi float64, samples int64) {
	r.L.call("rep:hvalue")
	t, p, n := copyTags(tags)
	r.L.add(Event{Thread: r.Child, Kind: KHValue, Name: name, Tags: t, TagsPtr: p, TagsNil: n, Spec: snapSpec(buckets), Lo: lo, Hi: hi, I: samples})
}

func (r *Stats) ReportHistogramDurationSamples(name string, tags map[string]string, buckets tally.Buckets, lo, hi time.Duration, samples int64) {
	r.L.call("rep:hduration")
	t, p, n := copyTags(tags)
	r.L.add(Event{Thread: r.Child, Kind: KHDuration, Name: name, Tags: t, TagsPtr: p, TagsNil: n, Spec: snapSpec(buckets), DLo: lo, DHi: hi, I: samples})
}

type caps struct{ r, t bool }

func (c caps) Reporting() bool { return c.r }
func (c caps) Tagging() bool   { return c.t }

// Caps builds a Capabilities value.
func Caps(reporting, tagging bool) tally.Capabilities { return caps{reporting, tagging} }

func (r *Stats) Capabilities() tally.Capabilities {
	if r.Caps != nil {
		return r.Caps
	}
	return caps{true, true}
}

func (r *Stats) Flush() {
	r.L.call("rep:flush")
	r.L.add(Event{Thread: r.Child, Kind: KFlush})
}

// StatsCloser is Stats that also implements io.Closer.
type StatsCloser struct {
	*Stats
	Err error
}

func (r StatsCloser) Close() error {
	r.L.call("rep:close")
	r.L.add(Event{Thread: r.Child, Kind: KClose})
	return r.Err
}

// ---------------------------------------------------------------- cached

// Cached is a recording tally.CachedStatsReporter.
type Cached struct {
	L     *Log
	Child int // stamped into Event.Thread
	Caps  tally.Capabilities

	mu      sync.Mutex
	nextH   int
	Handles []HandleInfo
}

// HandleInfo describes one allocated handle.
type HandleInfo struct {
	ID     int
	Kind   string
	Name   string
	Tags   map[string]string
	Spec   tally.Buckets
	Parent int
	Lo, Hi float64
	DLo    time.Duration
	DHi    time.Duration
}

func NewCached() *Cached { return &Cached{L: &Log{}} }

func (r *Cached) alloc(kind, name string, tags map[string]string, spec tally.Buckets) HandleInfo {
	t, p, n := copyTags(tags)
	r.mu.Lock()
	r.nextH++
	spec = snapSpec(spec)
	h := HandleInfo{ID: r.nextH, Kind: kind, Name: name, Tags: t, Spec: spec}
	r.Handles = append(r.Handles, h)
	r.mu.Unlock()
	r.L.add(Event{Thread: r.Child, Kind: kind, Name: name, Tags: t, TagsPtr: p, TagsNil: n, Handle: h.ID, Spec: spec})
	return h
}

// Handle returns the info of handle id.
func (r *Cached) Handle(id int) HandleInfo {
	r.mu.Lock()
	defer r.mu.Unlock()
	return r.Handles[id-1]
}

type cHandle struct {
	r *Cached
	h HandleInfo
}

func (c cHandle) ReportCount(v int64) {
	c.r.L.call("rep:counter")
	c.r.L.add(Event{Thread: c.r.Child, Kind: KCounter, Name: c.h.Name, Tags: c.h.Tags, Handle: c.h.ID, I: v})
}

func (c cHandle) ReportGauge(v float64) {
	c.r.L.call("rep:gauge")
	c.r.L.add(Event{Thread: c.r.Child, Kind: KGauge, Name: c.h.Name, Tags: c.h.Tags, Handle: c.h.ID, F: v})
}

func (c cHandle) ReportTimer(d time.Duration) {
	c.r.L.call("rep:timer")
	c.r.L.add(Event{Thread: c.r.Child, Kind: KTimer, Name: c.h.Name, Tags: c.h.Tags, Handle: c.h.ID, I: int64(d)})
}

func (c cHandle) ValueBucket(lo, hi float64) tally.CachedHistogramBucket {
	c.r.L.call("rep:bucket")
	c.r.mu.Lock()
	c.r.nextH++
	b := HandleInfo{ID: c.r.nextH, Kind: KBucketV, Name: c.h.Name, Tags: c.h.Tags, Spec: c.h.Spec, Parent: c.h.ID, Lo: lo, Hi: hi}
	c.r.Handles = append(c.r.Handles, b)
	c.r.mu.Unlock()
	c.r.L.add(Event{Thread: c.r.Child, Kind: KBucketV, Name: b.Name, Tags: b.Tags, Handle: b.ID, Parent: b.Parent, Lo: lo, Hi: hi, Spec: b.Spec})
	return bHandle{c.r, b}
}

func (c cHandle) DurationBucket(lo, hi time.Duration) tally.CachedHistogramBucket {
	c.r.L.call("rep:bucket")
	c.r.mu.Lock()
	c.r.nextH++
	b := HandleInfo{ID: c.r.nextH, Kind: KBucketD, Name: c.h.Name, Tags: c.h.Tags, Spec: c.h.Spec, Parent: c.h.ID, DLo: lo, DHi: hi}
	c.r.Handles = append(c.r.Handles, b)
	c.r.mu.Unlock()
	c.r.L.add(Event{Thread: c.r.Child, Kind: KBucketD, Name: b.Name, Tags: b.Tags, Handle: b.ID, Parent: b.Parent, DLo: lo, DHi: hi, Spec: b.Spec})
	return bHandle{c.r, b}
}

type bHandle struct {
	r *Cached
	b HandleInfo
}

func (b bHandle) ReportSamples(v int64) {
	b.r.L.call("rep:samples")
	if b.b.Kind == KBucketV {
		b.r.L.add(Event{Thread: b.r.Child, Kind: KHValue, Name: b.b.Name, Tags: b.b.Tags, Handle: b.b.ID, Parent: b.b.Parent, Lo: b.b.Lo, Hi: b.b.Hi, I: v, Spec: b.b.Spec})
	} else {
		b.r.L.add(Event{Thread: b.r.Child, Kind: KHDuration, Name: b.b.Name, Tags: b.b.Tags, Handle: b.b.ID, Parent: b.b.Parent, DLo: b.b.DLo, DHi: b.b.DHi, I: v, Spec: b.b.Spec})
	}
}

func (r *Cached) AllocateCounter(name string, tags map[string]string) tally.CachedCount {
	r.L.call("rep:alloc")
	return cHandle{r, r.alloc(KAllocC, name, tags, nil)}
}

func (r *Cached) AllocateGauge(name string, tags map[string]string) tally.CachedGauge {
	r.L.call("rep:alloc")
	return cHandle{r, r.alloc(KAllocG, name, tags, nil)}
}

func (r *Cached) AllocateTimer(name string, tags map[string]string) tally.CachedTimer {
	r.L.call("rep:alloc")
	return cHandle{r, r.alloc(KAllocT, name, tags, nil)}
}

func (r *Cached) AllocateHistogram(name string, tags map[string]string, buckets tally.Buckets) tally.CachedHistogram {
	r.L.call("rep:alloc")
	return cHandle{r, r.alloc(KAllocH, name, tags, buckets)}
}

func (r *Cached) Capabilities() tally.Capabilities {
	if r.Caps != nil {
		return r.Caps
	}
	return caps{true, true}
}

func (r *Cached) Flush() {
	r.L.call("rep:flush")
	r.L.add(Event{Thread: r.Child, Kind: KFlush})
}

// CachedCloser is Cached that also implements io.Closer.
type CachedCloser struct {
	*Cached
	Err error
}

func (r CachedCloser) Close() error {
	r.L.call("rep:close")
	r.L.add(Event{Thread: r.Child, Kind: KClose})
	return r.Err
}

// IsInternal reports whether name is one of the library's own cardinality
// metrics (after any sanitizing that maps '.' and others to a replacement,
// the shape is still recognisable by its length and prefix "tally").
func IsInternal(name string) bool {
	return strings.HasPrefix(name, "tally") && (strings.HasSuffix(name, "cardinality") || strings.HasSuffix(name, "num_active_scopes"))
}

// snapSpec copies a specification of one of the built-in bucket types at the
// moment of the reporter call: a real reporter consumes it synchronously, and
// the recording must not follow a slice that its owner rewrites later.
func snapSpec(b tally.Buckets) tally.Buckets {
	switch v := b.(type) {
	case tally.ValueBuckets:
		if v == nil {
			return v
		}
		return append(tally.ValueBuckets{}, v...)
	case tally.DurationBuckets:
		if v == nil {
			return v
		}
		return append(tally.DurationBuckets{}, v...)
	}
	return b
}

// CapsOf maps a small case field to capabilities a recording reporter
// advertises: 0 (reporting, tagging), 1 (no reporting, tagging), 2 (reporting,
// no tagging), 3 neither. What a reporter says about itself is advisory (a
// multi reporter over a null reporter says "not reporting" and still forwards
// everything to its other children): nothing the scope delivers may depend on it.
func CapsOf(n int) tally.Capabilities {
	return Caps(n&1 == 0, n&2 == 0)
}

// ---------------------------------------------------------------- one object in both roles

// Dual is ONE reporter object that speaks both reporter protocols (as a
// reporter such as tally's own test reporter does) and can be handed to a
// scope as Reporter and as CachedReporter at the same time. Flush and Close
// are logged once per call whatever role they were called in.
type Dual struct {
	S *Stats
	C *Cached
}

func (d *Dual) ReportCounter(name string, tags map[string]string, value int64) {
	d.S.ReportCounter(name, tags, value)
}
func (d *Dual) ReportGauge(name string, tags map[string]string, value float64) {
	d.S.ReportGauge(name, tags, value)
}
func (d *Dual) ReportTimer(name string, tags map[string]string, interval time.Duration) {
	d.S.ReportTimer(name, tags, interval)
}
func (d *Dual) ReportHistogramValueSamples(name string, tags map[string]string, buckets tally.Buckets, lo, hi float64, samples int64) {
	d.S.ReportHistogramValueSamples(name, tags, buckets, lo, hi, samples)
}
func (d *Dual) ReportHistogramDurationSamples(name string, tags map[string]string, buckets tally.Buckets, lo, hi time.Duration, samples int64) {
	d.S.ReportHistogramDurationSamples(name, tags, buckets, lo, hi, samples)
}
func (d *Dual) AllocateCounter(name string, tags map[string]string) tally.CachedCount {
	return d.C.AllocateCounter(name, tags)
}
func (d *Dual) AllocateGauge(name string, tags map[string]string) tally.CachedGauge {
	return d.C.AllocateGauge(name, tags)
}
func (d *Dual) AllocateTimer(name string, tags map[string]string) tally.CachedTimer {
	return d.C.AllocateTimer(name, tags)
}
func (d *Dual) AllocateHistogram(name string, tags map[string]string, buckets tally.Buckets) tally.CachedHistogram {
	return d.C.AllocateHistogram(name, tags, buckets)
}
func (d *Dual) Capabilities() tally.Capabilities { return d.S.Capabilities() }
func (d *Dual) Flush()                           { d.S.Flush() }

// DualCloser is Dual that also implements io.Closer.
type DualCloser struct {
	*Dual
	Err error
}

func (d DualCloser) Close() error {
	d.S.L.call("rep:close")
	d.S.L.add(Event{Thread: d.S.Child, Kind: KClose})
	return d.Err
}

// Package freerun is the free-running ("real parallelism") conservation
// scenario shared by the C01, C02 and C07 checks. The cooperative scheduler
// explores interleavings at the granularity of the verif hooks, so a change
// that opens a NEW window (one that contains no hook) is invisible to it. Here
// goroutines really run in parallel against the library's real report loop
// (a real ticker with a generated interval) and, optionally, extra report
// passes and seeded Gosched perturbation at the hooks; the program is built so
// that the oracle is EXACT: every increment is made by the goroutine that
// later closes the scope it was made on (or on a scope that is never closed),
// so "recorded before Close was called" is decided by program order and the
// delivered total must equal the recorded total; a gauge has exactly one
// updater. The program is generated (and replayable); the schedule is whatever
// the Go runtime does, so a failure is confirmed by re-running the program.
package freerun

import (
	"fmt"
	"io"
	"math"
	"runtime"
	"strings"
	"sync"
	"sync/atomic"
	"time"

	tally "github.com/uber-go/tally/v4"
	"pgregory.net/rapid"

	"verifharness/internal/pbt"
	"verifharness/internal/rec"
	"verifharness/internal/sched"
)

// Worker is one goroutine of the program.
type Worker struct {
	// inc: increments of root metric Target; cycle: obtain/record/Close cycles on its own
	// subscope identity Target; pass: extra report passes; gauge: sole updater of gauge Target
	Kind     string  `json:"kind"`
	Target   int     `json:"target"`
	Deltas   []int64 `json:"deltas,omitempty"`   // inc
	Hist     bool    `json:"hist,omitempty"`     // inc/cycle: histogram samples as well / instead
	Cycles   int     `json:"cycles,omitempty"`   // cycle
	PerCycle int     `json:"percycle,omitempty"` // cycle: increments per cycle
	Tagged   bool    `json:"tagged,omitempty"`   // cycle: identity derived by Tagged, not SubScope
	Child    bool    `json:"child,omitempty"`    // cycle: also record on a child of the subscope (closed with it? no: children are independent scopes; closed explicitly first)
	Gauge    bool    `json:"gauge,omitempty"`    // cycle: also update a gauge of the subscope (sole updater) before each Close
	Passes   int     `json:"passes,omitempty"`   // pass
	Values   []pbt.F `json:"values,omitempty"`   // gauge
}

// Case is one generated program.
type Case struct {
	Cached     bool     `json:"cached"`
	Shards     uint     `json:"shards"`
	IntervalUS int      `json:"interval_us"` // 0: no report loop
	Perturb    bool     `json:"perturb"`     // seeded Gosched perturbation at the verif hooks
	Seed       uint64   `json:"seed"`
	NRoot      int      `json:"nroot"`   // counters c0.. and histograms h0.. on the root
	NGauges    int      `json:"ngauges"` // gauges g0.. on the root
	Workers    []Worker `json:"workers"`
	FinalClose bool     `json:"final_close"` // end with the root's Close (else two sequential passes)
	SlowUS     int      `json:"slow_us"`     // reporter calls spin this long (widens every pass)
	// Sanitize: the root has a sanitizer (alphanumerics and '_' in tag keys/values) and the Tagged
	// cyclers spell their identity alternately "s-N" and "s.N" (both sanitize to "s_N"): the
	// re-acquire of the closed scope then goes through the registry's sanitized-key path
	Sanitize bool `json:"sanitize,omitempty"`
	// FillerScopes: that many further subscopes "fs<i>" exist from the start, each with one counter
	// incremented once (registries with many entries: growth, iteration while scopes come and go)
	FillerScopes int `json:"fillerScopes,omitempty"`
}

// Profile weights the generator towards one property's subject.
type Profile struct {
	Inc, Cycle, Gauge int // relative weights of worker kinds (pass workers are added separately)
}

var deltaPool = []int64{1, 1, 1, 2, 3, 7, 1000, 0, -1, -2, 1 << 31, -(1 << 31), math.MaxInt64, math.MinInt64}

var gaugePool = []float64{0, 1, -1, 2.5, math.Copysign(0, -1), math.Inf(1), math.Inf(-1), math.SmallestNonzeroFloat64, math.MaxFloat64, 42}

// Gen draws a program.
func Gen(t *rapid.T, p Profile) Case {
	c := Case{
		Cached:     rapid.Bool().Draw(t, "cached"),
		Shards:     uint(rapid.SampledFrom([]int{0, 1, 1, 2, 4}).Draw(t, "shards")),
		IntervalUS: rapid.SampledFrom([]int{0, 10, 20, 50, 100, 300}).Draw(t, "interval"),
		Perturb:    rapid.Bool().Draw(t, "perturb"),
		Seed:       rapid.Uint64().Draw(t, "seed"),
		NRoot:      rapid.IntRange(1, 3).Draw(t, "nroot"),
		SlowUS:     rapid.SampledFrom([]int{0, 0, 0, 2, 10}).Draw(t, "slow"),
		Sanitize:   rapid.IntRange(0, 2).Draw(t, "sanitize") == 0,
	}
	c.FinalClose = c.IntervalUS > 0 || rapid.Bool().Draw(t, "finalclose")
	if rapid.IntRange(0, 5).Draw(t, "fillerScopes?") == 0 {
		c.FillerScopes = rapid.IntRange(20, 300).Draw(t, "fillerScopes")
	}
	total := p.Inc + p.Cycle + p.Gauge
	n := rapid.IntRange(2, 6).Draw(t, "nworkers")
	ident := 0
	for i := 0; i < n; i++ {
		k := rapid.IntRange(0, total-1).Draw(t, "kind")
		switch {
		case k < p.Inc:
			w := Worker{Kind: "inc", Target: rapid.IntRange(0, c.NRoot-1).Draw(t, "target"), Hist: rapid.IntRange(0, 3).Draw(t, "hist") == 0}
			m := rapid.IntRange(1, 400).Draw(t, "nincs")
			signed := rapid.IntRange(0, 3).Draw(t, "signed") == 0
			for j := 0; j < m; j++ {
				d := rapid.SampledFrom(deltaPool).Draw(t, "d")
				if !signed && (d <= 0 || d > 1000) {
					d = 1
				}
				w.Deltas = append(w.Deltas, d)
			}
			c.Workers = append(c.Workers, w)
		case k < p.Inc+p.Cycle:
			c.Workers = append(c.Workers, Worker{Kind: "cycle", Target: ident,
				Cycles:   rapid.IntRange(1, 60).Draw(t, "cycles"),
				PerCycle: rapid.IntRange(1, 4).Draw(t, "percycle"),
				Tagged:   rapid.Bool().Draw(t, "tagged"),
				Hist:     rapid.IntRange(0, 3).Draw(t, "hist") == 0,
				Child:    rapid.IntRange(0, 3).Draw(t, "child") == 0,
				Gauge:    rapid.IntRange(0, 2).Draw(t, "cgauge") == 0})
			ident++
		default:
			w := Worker{Kind: "gauge", Target: c.NGauges}
			m := rapid.IntRange(1, 200).Draw(t, "nupdates")
			for j := 0; j < m; j++ {
				if rapid.IntRange(0, 2).Draw(t, "pool") == 0 {
					w.Values = append(w.Values, pbt.F(rapid.SampledFrom(gaugePool).Draw(t, "gv")))
				} else {
					w.Values = append(w.Values, pbt.F(math.Float64frombits(rapid.Uint64().Draw(t, "gbits"))))
				}
			}
			c.NGauges++
			c.Workers = append(c.Workers, w)
		}
	}
	np := rapid.IntRange(0, 2).Draw(t, "npass")
	if c.IntervalUS == 0 && np == 0 {
		np = 1
	}
	for i := 0; i < np; i++ {
		c.Workers = append(c.Workers, Worker{Kind: "pass", Passes: rapid.IntRange(1, 40).Draw(t, "passes")})
	}
	return c
}

func spinFor(d time.Duration) {
	if d <= 0 {
		return
	}
	t0 := time.Now()
	for time.Since(t0) < d {
		runtime.Gosched()
	}
}

type gstate struct {
	mu      sync.Mutex
	started map[uint64]bool
	nstart  int
	last    uint64
	any     bool
}

type total struct {
	sum    atomic.Int64
	signed atomic.Bool
}

func (a *total) add(d int64) {
	if cur := a.sum.Load(); d < 0 || cur+d < cur || cur < 0 {
		a.signed.Store(true)
	}
	a.sum.Add(d)
}

// Run executes the program and judges it.
func Run(c Case) (pbt.Outcome, error) {
	var errs pbt.Errs
	var out pbt.Outcome
	log := &rec.Log{}
	if c.SlowUS > 0 {
		d := time.Duration(c.SlowUS) * time.Microsecond
		log.Gate = func(e rec.Event) {
			if e.Kind != rec.KMark {
				spinFor(d)
			}
		}
	}
	opts := tally.ScopeOptions{OmitCardinalityMetrics: true}
	if c.Sanitize {
		alnum := []tally.SanitizeRange{{'a', 'z'}, {'A', 'Z'}, {'0', '9'}}
		opts.SanitizeOptions = &tally.SanitizeOptions{
			NameCharacters:       tally.ValidCharacters{Ranges: alnum, Characters: []rune{'_', '.'}},
			KeyCharacters:        tally.ValidCharacters{Ranges: alnum, Characters: []rune{'_'}},
			ValueCharacters:      tally.ValidCharacters{Ranges: alnum, Characters: []rune{'_'}},
			ReplacementCharacter: '_',
		}
	}
	if c.Cached {
		opts.CachedReporter = &rec.Cached{L: log}
	} else {
		opts.Reporter = &rec.Stats{L: log}
	}
	if c.Perturb {
		f := sched.NewFree(c.Seed)
		tally.VerifSetHooks(&tally.VerifHooks{Yield: f.Yield, Lock: f.Lock})
		defer tally.VerifSetHooks(nil)
	}
	root, closer := tally.VerifNewRootScope(opts, time.Duration(c.IntervalUS)*time.Microsecond, c.Shards)
	defer func() {
		// whatever happened, never leave a report loop behind
		_ = closer.Close()
	}()
	if c.NRoot < 1 {
		c.NRoot = 1
	}
	counters := make([]tally.Counter, c.NRoot)
	hists := make([]tally.Histogram, c.NRoot)
	for i := range counters {
		counters[i] = root.Counter(fmt.Sprintf("c%d", i))
		hists[i] = root.Histogram(fmt.Sprintf("h%d", i), hspec(i))
	}
	gauges := make([]tally.Gauge, c.NGauges)
	for i := range gauges {
		gauges[i] = root.Gauge(fmt.Sprintf("g%d", i))
	}
	var mu sync.Mutex
	totals := map[string]*total{}
	tot := func(name string) *total {
		mu.Lock()
		defer mu.Unlock()
		a := totals[name]
		if a == nil {
			a = &total{}
			totals[name] = a
		}
		return a
	}
	for i := 0; i < c.FillerScopes; i++ {
		root.SubScope(fmt.Sprintf("fs%d", i)).Counter("c").Inc(1)
		tot(fmt.Sprintf("fs%d.c", i)).add(1)
	}
	// gauge bookkeeping: values whose Update has started / the last value, per gauge
	gst := make([]*gstate, c.NGauges)
	for i := range gst {
		gst[i] = &gstate{started: map[uint64]bool{}}
	}
	// gauges of cyclers: name -> state (one cycler per identity, so one updater per gauge)
	var cgMu sync.Mutex
	cgauges := map[string]*gstate{}
	var panics atomic.Int32
	var panicMsg atomic.Value
	var wg sync.WaitGroup
	start := make(chan struct{})
	for wi, w := range c.Workers {
		wi, w := wi, w
		wg.Add(1)
		go func() {
			defer wg.Done()
			defer func() {
				if r := recover(); r != nil {
					panics.Add(1)
					buf := make([]byte, 8192)
					buf = buf[:runtime.Stack(buf, false)]
					panicMsg.Store(fmt.Sprintf("worker %d (%s): panic: %v\n%s", wi, w.Kind, r, buf))
				}
			}()
			<-start
			switch w.Kind {
			case "inc":
				ti := w.Target % c.NRoot
				ca := tot(fmt.Sprintf("c%d", ti))
				for j, d := range w.Deltas {
					counters[ti].Inc(d)
					ca.add(d)
					if w.Hist && j%3 == 0 {
						v := float64((j / 3) % 3)
						hists[ti].RecordValue(v)
						tot(hkey(fmt.Sprintf("h%d", ti), ti, v)).add(1)
					}
				}
			case "cycle":
				name := fmt.Sprintf("s%d", w.Target)
				cname, hname, kname := name+".c", name+".h", name+".k.c"
				if w.Tagged {
					cname, hname, kname = "c|id="+name, "h|id="+name, "k.c|id="+name
					if c.Sanitize {
						san := fmt.Sprintf("s_%d", w.Target)
						cname, hname, kname = "c|id="+san, "h|id="+san, "k.c|id="+san
					}
				}
				ca, ka := tot(cname), tot(kname)
				// one tag map per worker, refilled for every cycle and overwritten right after the call
				// ("one map, loop over the tag values"): the library copies it on every derivation
				tagMap := map[string]string{}
				// handles of the previous cycle's scope object, which is closed and - once this worker has
				// been handed its successor - reported for the last time, dropped and cleared: recording on
				// them is harmless and shows up nowhere, in particular not in another metric
				var staleC tally.Counter
				var staleG tally.Gauge
				for k := 0; k < w.Cycles; k++ {
					var sub tally.Scope
					if w.Tagged && c.Sanitize {
						tagMap["id"] = fmt.Sprintf("s%c%d", "-."[k%2], w.Target)
						sub = root.Tagged(tagMap)
						tagMap["id"] = "spoiled-by-caller"
					} else if w.Tagged {
						tagMap["id"] = name
						sub = root.Tagged(tagMap)
						tagMap["id"] = "spoiled-by-caller"
					} else {
						sub = root.SubScope(name)
					}
					cn := sub.Counter("c")
					if staleC != nil && !(w.Tagged && c.Sanitize) {
						staleC.Inc(1000003)
						if staleG != nil {
							staleG.Update(float64(-777000 - k))
						}
					}
					for j := 0; j < w.PerCycle; j++ {
						d := int64(1 + (j+k)%3)
						cn.Inc(d)
						ca.add(d)
					}
					if w.Hist {
						sub.Histogram("h", hspec(w.Target)).RecordValue(float64(k % 3))
						tot(hkey(hname, w.Target, float64(k%3))).add(1)
					}
					if w.Gauge {
						gname := strings.Replace(cname, "c", "g", 1)
						if !w.Tagged {
							gname = name + ".g"
						}
						cgMu.Lock()
						st := cgauges[gname]
						if st == nil {
							st = &gstate{started: map[uint64]bool{}}
							cgauges[gname] = st
						}
						cgMu.Unlock()
						v := float64(k*100 + w.Target + 1)
						st.mu.Lock()
						st.started[math.Float64bits(v)] = true
						st.nstart++
						st.last = math.Float64bits(v)
						st.any = true
						st.mu.Unlock()
						staleG = sub.Gauge("g")
						staleG.Update(v)
					}
					staleC = cn
					if w.Child {
						kid := sub.SubScope("k")
						kid.Counter("c").Inc(2)
						ka.add(2)
						if k%2 == 0 {
							_ = kid.(io.Closer).Close()
						}
					}
					_ = sub.(io.Closer).Close()
					if k%7 == 3 {
						_ = sub.(io.Closer).Close() // closing twice is harmless
					}
				}
			case "pass":
				for k := 0; k < w.Passes; k++ {
					tally.VerifReportLoopRun(root)
					runtime.Gosched()
				}
			case "gauge":
				g, st := gauges[w.Target], gst[w.Target]
				for _, v := range w.Values {
					bits := math.Float64bits(float64(v))
					st.mu.Lock()
					st.started[bits] = true
					st.nstart++
					st.last = bits
					st.any = true
					st.mu.Unlock()
					g.Update(float64(v))
				}
			}
		}()
	}
	close(start)
	wg.Wait()
	joined := log.Mark("joined")
	if panics.Load() > 0 {
		errs.Addf("%v", panicMsg.Load())
		return out, errs.Err()
	}
	var closeRet int
	if c.FinalClose {
		if err := closer.Close(); err != nil {
			errs.Addf("root Close returned %v (reporter has no Close)", err)
		}
		closeRet = log.Mark("close-returned")
		// "after Close has returned no report pass or flush is still running or will ever start"
		wait := 3 * time.Duration(c.IntervalUS) * time.Microsecond
		if wait > 2*time.Millisecond {
			wait = 2 * time.Millisecond
		}
		spinFor(wait)
		tally.VerifSetHooks(nil)
	} else {
		tally.VerifSetHooks(nil)
		tally.VerifReportOnce(root)
		closeRet = log.Mark("sequential-pass-done")
		tally.VerifReportOnce(root)
	}
	events := log.Events()
	passesDuring := 0
	delivered := map[string]int64{}
	negative := map[string]bool{}
	lastGauge := map[string]uint64{}
	gaugeDeliveries := map[string]int{}
	for _, e := range events {
		switch e.Kind {
		case rec.KFlush:
			if e.Seq < joined {
				passesDuring++
			}
			if e.Seq > closeRet && c.FinalClose {
				errs.Addf("Flush after the root's Close returned: %v", e)
			}
		case rec.KCounter, rec.KHValue:
			n := e.Name + tagSuffix(e.Tags)
			if e.Kind == rec.KHValue {
				n = fmt.Sprintf("%s#<=%v%s", e.Name, e.Hi, tagSuffix(e.Tags))
			}
			if e.I == 0 {
				errs.Addf("zero delta delivered: %v", e)
			}
			if e.I < 0 {
				negative[n] = true
			}
			delivered[n] += e.I
			if e.Seq > closeRet {
				if c.FinalClose {
					errs.Addf("delivery after the root's Close returned: %v", e)
				} else {
					errs.Addf("a report cycle with no new increments delivered %v", e)
				}
			}
		case rec.KGauge:
			n := e.Name + tagSuffix(e.Tags)
			lastGauge[n] = math.Float64bits(e.F)
			gaugeDeliveries[n]++
			if e.Seq > closeRet {
				errs.Addf("gauge delivered after the end of activity and one full pass: %v", e)
			}
			var gi int
			if st := cgauges[n]; st != nil {
				if !st.started[math.Float64bits(e.F)] {
					errs.Addf("gauge %s: delivered value %v (bits %016x) was never passed to Update", n, e.F, math.Float64bits(e.F))
				}
			} else if _, err := fmt.Sscanf(n, "g%d", &gi); err == nil && gi < len(gst) && !strings.Contains(n, ".") && !strings.Contains(n, "|") {
				if !gst[gi].started[math.Float64bits(e.F)] {
					errs.Addf("gauge %s: delivered value %v (bits %016x) was never passed to Update", n, e.F, math.Float64bits(e.F))
				}
			}
		}
	}
	for n, a := range totals {
		if got := delivered[n]; got != a.sum.Load() {
			errs.Addf("%s: delivered total %d, sum of increments %d (every increment was made before Close of its scope was called, by the goroutine that closed it, or on a scope never closed; %d report passes ran during the activity)", n, got, a.sum.Load(), passesDuring)
		}
		if !a.signed.Load() && negative[n] {
			errs.Addf("%s: a negative delta was delivered although every increment was non-negative", n)
		}
	}
	for n := range delivered {
		if totals[n] == nil {
			errs.Addf("%s: %d delivered for a metric nothing was recorded on", n, delivered[n])
		}
	}
	for i, st := range gst {
		n := fmt.Sprintf("g%d", i)
		if !st.any {
			continue
		}
		if gaugeDeliveries[n] > st.nstart {
			errs.Addf("gauge %s: %d deliveries for %d updates", n, gaugeDeliveries[n], st.nstart)
		}
		if got, ok := lastGauge[n]; !ok || got != st.last {
			errs.Addf("gauge %s: after updates stopped and a full report ran, the most recent delivered value has bits %016x (delivered=%v), last update %016x", n, got, ok, st.last)
		}
	}
	for n, st := range cgauges {
		if gaugeDeliveries[n] > st.nstart {
			errs.Addf("gauge %s: %d deliveries for %d updates", n, gaugeDeliveries[n], st.nstart)
		}
		if c.Sanitize && c.Shards != 1 && strings.Contains(n, "|id=s_") {
			// two spellings that merely SANITIZE to one identity hash to different registry shards and
			// are then two scope objects (C05 promises one scope only for inputs the sanitizer leaves
			// unchanged): which of their gauges is reported last is not defined
			continue
		}
		if got, ok := lastGauge[n]; !ok || got != st.last {
			errs.Addf("gauge %s (updated once per obtain/update/Close cycle by the goroutine that closes its scope): after the last Close and a full report the most recent delivered value has bits %016x (delivered=%v), last update %016x", n, got, ok, st.last)
		}
	}
	out.NonTrivial = passesDuring > 0
	kinds := map[string]bool{}
	for _, w := range c.Workers {
		kinds[w.Kind] = true
	}
	for k := range kinds {
		out.Classes = append(out.Classes, "has-"+k)
	}
	if c.IntervalUS > 0 {
		out.Classes = append(out.Classes, "real-ticker")
	}
	if c.FinalClose {
		out.Classes = append(out.Classes, "final-close")
	}
	switch {
	case passesDuring == 0:
		out.Classes = append(out.Classes, "passes-during=0")
	case passesDuring < 5:
		out.Classes = append(out.Classes, "passes-during=1..4")
	default:
		out.Classes = append(out.Classes, "passes-during>=5")
	}
	return out, errs.Err()
}

// hspec: every second histogram uses {1}, a different specification with the same identity in the
// root's bucket cache as {0,1}; samples are accounted per (histogram, bucket).
func hspec(i int) tally.ValueBuckets {
	if i%2 == 1 {
		return tally.ValueBuckets{1}
	}
	return tally.ValueBuckets{0, 1}
}

func hkey(n string, i int, v float64) string {
	hi := math.MaxFloat64
	for _, b := range hspec(i) {
		if v <= b {
			hi = b
			break
		}
	}
	suffix := ""
	if at := strings.Index(n, "|"); at >= 0 {
		n, suffix = n[:at], n[at:]
	}
	return fmt.Sprintf("%s#<=%v%s", n, hi, suffix)
}

func tagSuffix(tags map[string]string) string {
	if len(tags) == 0 {
		return ""
	}
	return "|id=" + tags["id"]
}

// Rule is the text shared by the three checks' evidence.
const Rule = "free-running mode (real parallelism, no cooperative scheduler): a generated program of 2..8 goroutines - incrementers of root counters/histograms (deltas incl. 0, negatives, int64 extremes), obtain/record/Close cyclers each on its own subscope identity (SubScope or Tagged, optional child scope, double Close, increments and updates through the counter and gauge handles of the PREVIOUS, dropped scope object of the identity - which must show up nowhere; optionally under a sanitizer with the identity spelled alternately in two ways that sanitize to one), sole updaters of gauges (hostile float64 bit patterns), extra report-pass callers - runs against the library's REAL report loop (ticker interval 10..300us, or none), optionally with seeded Gosched perturbation at the verif hooks and a slow reporter, and ends with the root's Close (or two sequential passes). Oracle (exact, because every increment precedes the Close of its scope in program order): per metric (per bucket for histograms, every second one created with a different specification of equal cache identity) delivered total == sum of increments, nothing delivered under a name or bucket never recorded into; no zero delivery; no negative delta when all increments are non-negative; nothing delivered after Close returned / by a second sequential pass; every delivered gauge value was passed to Update, deliveries <= updates, last delivered == last update; no panic. Non-trivial: at least one report pass (Flush) completed while the workers were running. The program is replayable, the schedule is not (a failure is confirmed by re-running the program up to Retries times)."

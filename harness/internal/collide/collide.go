// Package collide builds bucket specifications that are DIFFERENT from a given
// one but have the same identity in the library's internal bucket cache (a
// commutative fold: seed 23 + sum of 31*element bits, an empty spec is 0, the
// kind is not part of it). A histogram must keep its own bounds whatever such
// specs were used before it under the same root (C20), so the checks that
// judge bucketing (C03) and snapshots (C11) plant one of these first. If the
// library's identity function changes, the companions merely stop colliding.
package collide

import (
	"math"
	"time"

	tally "github.com/uber-go/tally/v4"
)

const (
	seed uint64 = 23
	fold uint64 = 31
)

// inv31 is the multiplicative inverse of 31 modulo 2^64.
var inv31 = func() uint64 {
	x := uint64(1)
	for i := 0; i < 6; i++ { // Newton iteration doubles the number of correct bits
		x *= 2 - fold*x
	}
	return x
}()

// ZeroSum is the element sum of every non-empty spec whose identity is 0, the identity of an empty
// spec (seed + fold*ZeroSum == 0 mod 2^64).
func ZeroSum() uint64 {
	var zero uint64
	return (zero - seed) * inv31
}

func finite(bits uint64) bool {
	f := math.Float64frombits(bits)
	return !math.IsNaN(f) && !math.IsInf(f, 0)
}

// Companions returns the colliding specs for spec (possibly none).
func Companions(spec tally.Buckets) []tally.Buckets {
	var bits []uint64
	isDur := false
	switch b := spec.(type) {
	case tally.ValueBuckets:
		for _, v := range b {
			bits = append(bits, math.Float64bits(v))
		}
	case tally.DurationBuckets:
		isDur = true
		for _, d := range b {
			bits = append(bits, uint64(d))
		}
	default:
		return nil
	}
	var sum uint64
	if len(bits) == 0 {
		// identity 0: seed + fold*x == 0
		var zero uint64
		sum = (zero - seed) * inv31
	} else {
		for _, b := range bits {
			sum += b
		}
	}
	var out []tally.Buckets
	addD := func(ds ...time.Duration) {
		if isDur && len(ds) == len(bits) {
			same := true
			for i := range ds {
				if uint64(ds[i]) != bits[i] {
					same = false
				}
			}
			if same {
				return
			}
		}
		out = append(out, tally.DurationBuckets(ds))
	}
	addV := func(bs ...uint64) {
		vs := make([]float64, len(bs))
		for i, b := range bs {
			if !finite(b) {
				return
			}
			vs[i] = math.Float64frombits(b)
		}
		if !isDur && len(bs) == len(bits) {
			same := true
			for i := range bs {
				if bs[i] != bits[i] {
					same = false
				}
			}
			if same {
				return
			}
		}
		out = append(out, tally.ValueBuckets(vs))
	}
	// one element carrying the whole sum, of either kind
	if len(bits) != 1 || !isDur {
		addD(time.Duration(sum))
	}
	if len(bits) != 1 || isDur {
		addV(sum)
	}
	if len(bits) >= 1 {
		// element-wise reinterpretation as the other kind
		if isDur {
			addV(bits...)
		} else {
			ds := make([]time.Duration, len(bits))
			for i, b := range bits {
				ds[i] = time.Duration(b)
			}
			addD(ds...)
		}
	}
	if len(bits) >= 2 {
		// (a+1, b-1, rest...) of the same kind
		sh := append([]uint64(nil), bits...)
		sh[0]++
		sh[1]--
		if isDur {
			ds := make([]time.Duration, len(sh))
			for i, b := range sh {
				ds[i] = time.Duration(b)
			}
			addD(ds...)
		} else {
			addV(sh...)
		}
	}
	return out
}

// Package pbt is the shared runner: it drives a property (generator + run
// function + oracle) with rapid, counts what was generated, classifies cases,
// writes per-shard statistics for the driver and turns every failing case into
// a JSON replay file that can be re-run without rapid.
package pbt

import (
	"encoding/json"
	"errors"
	"fmt"
	"hash/fnv"
	"os"
	"os/exec"
	"path/filepath"
	"runtime"
	"runtime/debug"
	"sort"
	"strings"
	"testing"
	"time"

	"pgregory.net/rapid"
)

// Outcome is what a run of one case reports besides pass/fail.
type Outcome struct {
	// NonTrivial says whether the case met the property's stated
	// non-triviality rule.
	NonTrivial bool
	// Classes are free-form labels counted into a histogram so that a
	// starving generator is visible in the evidence.
	Classes []string
	// Excluded, when non-empty, names the recorded known finding the case
	// falls into; such cases are counted, not judged.
	Excluded string
}

// Prop is a property over cases of type C. C must be JSON round-trippable.
type Prop[C any] struct {
	ID   string
	Name string // sub-check name (a property may have several)
	Rule string
	Gen  func(t *rapid.T) C
	Run  func(c C) (Outcome, error)
	// Retries > 1 declares that one case does not determine one execution
	// (the library iterates Go maps and seeds its shard hash randomly, so the
	// same schedule choices can meet the hooks in a different order). A replay
	// and, once a failure has been seen, every shrink candidate is then run
	// up to Retries times and counts as failing if any run fails. Before the
	// first failure every generated case is run once.
	Retries int
	// HangAfter > 0: Run is executed on its own goroutine and a case that has not returned after
	// this long is a failure ("the library call did not return": a lock left held, an endless
	// loop) - a process-poisoning one, since the goroutine cannot be stopped. For checks whose
	// cases take micro- to milliseconds; scheduler-driven modes detect hangs themselves.
	HangAfter time.Duration
}

// runRetry runs the case up to n times and returns the first failure.
func runRetry[C any](p Prop[C], c C, n int) (out Outcome, err error) {
	if n < 1 {
		n = 1
	}
	for i := 0; i < n; i++ {
		out, err = safeRun(p, c)
		if err != nil {
			return out, err
		}
	}
	return out, nil
}

type shardStats struct {
	Property    string            `json:"property"`
	Name        string            `json:"name"`
	Rule        string            `json:"rule"`
	Evaluations int               `json:"evaluations"`
	NonTrivial  int               `json:"nontrivial"`
	Distinct    int               `json:"distinct_nontrivial"`
	Hashes      []uint64          `json:"hashes"`
	Classes     map[string]int    `json:"classes"`
	Excluded    map[string]int    `json:"excluded"`
	Samples     []json.RawMessage `json:"samples"`
	Failed      bool              `json:"failed"`
	FailMsg     string            `json:"fail_msg,omitempty"`
	FailFile    string            `json:"fail_file,omitempty"`
	WallS       float64           `json:"wall_s"`
	Replayed    int               `json:"replayed"`
	Exhaustive  bool              `json:"exhaustive"`
}

const maxHashes = 250000
const maxSamples = 4

type sample struct {
	h   uint64
	raw json.RawMessage
}

type collector struct {
	st       shardStats
	seen     map[uint64]struct{}
	samples  []sample
	trivial  []sample
	start    time.Time
	failed   bool
	statsOut string
}

func newCollector(id, name, rule string) *collector {
	return &collector{
		st: shardStats{Property: id, Name: name, Rule: rule,
			Classes: map[string]int{}, Excluded: map[string]int{}},
		seen:     map[uint64]struct{}{},
		start:    time.Now(),
		statsOut: os.Getenv("VERIF_STATS"),
	}
}

func hashBytes(b []byte) uint64 {
	h := fnv.New64a()
	_, _ = h.Write(b)
	return h.Sum64()
}

func (c *collector) record(raw []byte, out Outcome) {
	c.st.Evaluations++
	for _, cl := range out.Classes {
		c.st.Classes[cl]++
	}
	if out.Excluded != "" {
		c.st.Excluded[out.Excluded]++
		return
	}
	h := hashBytes(raw)
	if !out.NonTrivial {
		if len(c.trivial) < 2 {
			c.trivial = append(c.trivial, sample{h, append([]byte(nil), raw...)})
		}
		return
	}
	c.st.NonTrivial++
	if _, ok := c.seen[h]; ok {
		return
	}
	c.seen[h] = struct{}{}
	// bottom-k by hash: deterministic sample of the non-trivial cases
	if len(c.samples) < maxSamples || h < c.samples[len(c.samples)-1].h {
		if len(raw) <= 16384 {
			c.samples = append(c.samples, sample{h, append([]byte(nil), raw...)})
			sort.Slice(c.samples, func(i, j int) bool { return c.samples[i].h < c.samples[j].h })
			if len(c.samples) > maxSamples {
				c.samples = c.samples[:maxSamples]
			}
		}
	}
}

func (c *collector) flush() {
	if c.statsOut == "" {
		return
	}
	c.st.Distinct = len(c.seen)
	c.st.Hashes = c.st.Hashes[:0]
	for h := range c.seen {
		if len(c.st.Hashes) >= maxHashes {
			break
		}
		c.st.Hashes = append(c.st.Hashes, h)
	}
	c.st.Samples = nil
	for _, s := range c.samples {
		c.st.Samples = append(c.st.Samples, s.raw)
	}
	if len(c.st.Samples) == 0 {
		for _, s := range c.trivial {
			c.st.Samples = append(c.st.Samples, s.raw)
		}
	}
	c.st.WallS = time.Since(c.start).Seconds()
	b, _ := json.Marshal(&c.st)
	tmp := c.statsOut + ".tmp"
	if err := os.WriteFile(tmp, b, 0o644); err == nil {
		_ = os.Rename(tmp, c.statsOut)
	}
}

// safeRun runs p.Run converting a panic in the harness or in the code under
// test into an error (a panic is a failure for every property).
func safeRun[C any](p Prop[C], c C) (out Outcome, err error) {
	defer func() {
		if r := recover(); r != nil {
			err = fmt.Errorf("panic: %v\n%s", r, debug.Stack())
		}
	}()
	if p.HangAfter > 0 {
		type res struct {
			out Outcome
			err error
		}
		done := make(chan res, 1)
		go func() {
			defer func() {
				if r := recover(); r != nil {
					done <- res{Outcome{}, fmt.Errorf("panic: %v\n%s", r, debug.Stack())}
				}
			}()
			o, e := p.Run(c)
			done <- res{o, e}
		}()
		select {
		case r := <-done:
			out, err = r.out, r.err
		case <-time.After(p.HangAfter):
			// The timer also fires when the whole process was stopped for that long (a sandbox copy,
			// a stalled machine) and the case merely had no chance to run. A hang is a case that
			// STILL has not returned after a grace period measured from now; one that returns within
			// it is judged by its result like any other.
			select {
			case r := <-done:
				return finish(r.out, r.err)
			case <-time.After(hangGrace):
			}
			buf := make([]byte, 1<<16)
			buf = buf[:runtime.Stack(buf, true)]
			return Outcome{}, Poison(fmt.Errorf("the case did not return within %v: a library call hangs (a lock left held by an earlier call, an endless loop)\ngoroutines:\n%s", p.HangAfter, trunc(string(buf), 6000)))
		}
	} else {
		out, err = p.Run(c)
	}
	return finish(out, err)
}

// hangGrace: see safeRun.
const hangGrace = 5 * time.Second

// finish maps a harness-side failure to an excluded case and passes everything else on.
func finish(out Outcome, err error) (Outcome, error) {
	if err != nil && strings.HasPrefix(err.Error(), "harness:") {
		// the harness could not run the case (no socket, sink starved by a busy machine, ...):
		// never a verdict about the code under test; counted, and the driver reports the run
		// as inconclusive if this happens to more than 1% of the cases
		msg := err.Error()
		if len(msg) > 60 {
			msg = msg[:60]
		}
		return Outcome{Excluded: msg}, nil
	}
	return out, err
}

func writeFail(path string, raw []byte, msg string) {
	if path == "" {
		return
	}
	_ = os.MkdirAll(filepath.Dir(path), 0o755)
	_ = os.WriteFile(path, raw, 0o644)
	_ = os.WriteFile(path+".msg", []byte(msg), 0o644)
}

// Main is the body of the single Test function of a property package.
//
//	VERIF_REPLAY=<file|dir>  run those JSON cases through Run (no rapid)
//	VERIF_STATS=<file>       write shard statistics there
//	VERIF_FAILFILE=<file>    write the (shrunk) failing case there
//	VERIF_ONLY=<name>        when a package has several props, run only this one
func Main[C any](t *testing.T, p Prop[C]) {
	if only := os.Getenv("VERIF_ONLY"); only != "" && only != p.Name {
		t.Skip("not selected")
	}
	col := newCollector(p.ID, p.Name, p.Rule)
	defer col.flush()

	if rp := os.Getenv("VERIF_REPLAY"); rp != "" {
		files := []string{rp}
		if fi, err := os.Stat(rp); err == nil && fi.IsDir() {
			files, _ = filepath.Glob(filepath.Join(rp, "*.json"))
			sort.Strings(files)
		}
		for _, f := range files {
			b, err := os.ReadFile(f)
			if err != nil {
				t.Fatalf("replay: %v", err)
			}
			var c C
			if err := json.Unmarshal(b, &c); err != nil {
				t.Fatalf("replay %s: bad case: %v", f, err)
			}
			out, err := runRetry(p, c, p.Retries)
			raw, _ := json.Marshal(c)
			col.record(raw, out)
			col.st.Replayed++
			if err != nil {
				col.st.Failed = true
				col.st.FailMsg = err.Error()
				col.st.FailFile = f
				col.flush()
				fmt.Printf("REPLAY-FAIL file=%s\n%s\n", f, err)
				t.Fatalf("replay %s failed: %v", f, err)
			}
		}
		return
	}

	failFile := os.Getenv("VERIF_FAILFILE")
	isolate := os.Getenv("VERIF_ISOLATE") != ""
	n := 0
	rapid.Check(t, func(rt *rapid.T) {
		c := p.Gen(rt)
		raw, jerr := json.Marshal(c)
		if jerr != nil {
			rt.Fatalf("harness: case not serialisable: %v", jerr)
		}
		tries := 1
		if col.failed {
			tries = p.Retries
		}
		var out Outcome
		var err error
		if isolate {
			// isolation mode (driver fallback after a failing case did not reproduce on its own: the
			// code under test carries state from one case to the next): every case runs in a process
			// of its own, so a case that fails here fails by itself
			err = runIsolated(t.Name(), p.Name, raw)
		} else {
			out, err = runRetry(p, c, tries)
		}
		if !col.failed {
			col.record(raw, out)
			n++
			if n%2000 == 0 {
				col.flush()
			}
		}
		if err != nil {
			col.failed = true
			col.st.Failed = true
			col.st.FailMsg = err.Error()
			col.st.FailFile = failFile
			writeFail(failFile, raw, err.Error())
			msg := err.Error()
			if len(msg) > 4000 {
				msg = msg[:4000] + "…"
			}
			if IsPoison(err) {
				col.flush()
				fmt.Printf("property %s/%s violated (process state no longer reliable, not shrinking): %s\ncase: %s\n", p.ID, p.Name, msg, trunc(string(raw), 1500))
				os.Exit(1)
			}
			rt.Fatalf("property %s/%s violated: %s\ncase: %s", p.ID, p.Name, msg, trunc(string(raw), 1500))
		}
	})
}

// runIsolated replays one case in a fresh process of this test binary.
func runIsolated(testName, mode string, raw []byte) error {
	f, err := os.CreateTemp("", "verif-iso-*.json")
	if err != nil {
		return nil
	}
	defer os.Remove(f.Name())
	_, _ = f.Write(raw)
	_ = f.Close()
	cmd := exec.Command(os.Args[0], "-test.run", "^"+testName+"$", "-test.count=1", "-test.timeout", "600s")
	env := []string{}
	for _, kv := range os.Environ() {
		if strings.HasPrefix(kv, "VERIF_ISOLATE=") || strings.HasPrefix(kv, "VERIF_REPLAY=") || strings.HasPrefix(kv, "VERIF_STATS=") || strings.HasPrefix(kv, "VERIF_FAILFILE=") || strings.HasPrefix(kv, "VERIF_CURCASE=") {
			continue
		}
		env = append(env, kv)
	}
	cmd.Env = append(env, "VERIF_REPLAY="+f.Name(), "VERIF_ONLY="+mode)
	outb, runErr := cmd.CombinedOutput()
	if runErr == nil {
		return nil
	}
	msg := string(outb)
	if i := strings.Index(msg, "REPLAY-FAIL"); i >= 0 {
		msg = msg[i:]
	}
	if len(msg) > 3000 {
		msg = msg[:3000]
	}
	return fmt.Errorf("(isolated run) %s", msg)
}

func trunc(s string, n int) string {
	if len(s) > n {
		return s[:n] + "…"
	}
	return s
}

// poisonErr marks a failure after which the process can no longer be trusted
// (a goroutine of the case is still blocked inside the library: a hang): the
// runner writes the case to the fail file and exits at once instead of going
// on to shrink, because every later case in this process could fail only
// because of what the hung one left behind. The driver re-runs the saved case
// in a fresh process before reporting anything.
type poisonErr struct{ error }

// Poison wraps err as a process-poisoning failure.
func Poison(err error) error {
	if err == nil {
		return nil
	}
	return poisonErr{err}
}

// IsPoison reports whether err is (or wraps) a poisoning failure.
func IsPoison(err error) bool {
	var p poisonErr
	return errors.As(err, &p)
}

// Errs accumulates oracle failures so that a run reports all of them.
type Errs struct {
	msgs   []string
	poison bool
}

// Poison marks the accumulated failure as process-poisoning (see poisonErr).
func (e *Errs) Poison() { e.poison = true }

func (e *Errs) Addf(format string, a ...interface{}) {
	if len(e.msgs) < 12 {
		m := fmt.Sprintf(format, a...)
		if len(m) > 700 {
			m = m[:700] + "…"
		}
		e.msgs = append(e.msgs, m)
	}
}

func (e *Errs) Err() error {
	if len(e.msgs) == 0 {
		return nil
	}
	err := fmt.Errorf("%s", strings.Join(e.msgs, "\n"))
	if e.poison {
		return poisonErr{err}
	}
	return err
}

func (e *Errs) Failed() bool { return len(e.msgs) > 0 }

// ---------------------------------------------------------------- known findings

type knownFile struct {
	Open []struct {
		Property string `json:"property"`
		ID       string `json:"id"`
	} `json:"open"`
}

var knownLoaded bool
var knownOpen map[string]bool

// KnownOpen reports whether finding id of property is listed as an open
// (recorded, not repaired) finding in known_findings.json. Only then may a
// check exclude that class of cases from judgement.
func KnownOpen(property, id string) bool {
	if !knownLoaded {
		knownLoaded = true
		knownOpen = map[string]bool{}
		path := os.Getenv("VERIF_KNOWN")
		if path == "" {
			path = "/verif/known_findings.json"
		}
		if b, err := os.ReadFile(path); err == nil {
			var k knownFile
			if json.Unmarshal(b, &k) == nil {
				for _, o := range k.Open {
					knownOpen[o.Property+"/"+o.ID] = true
				}
			}
		}
	}
	return knownOpen[property+"/"+id]
}

// ---------------------------------------------------------------- enumeration

// MainEnum is Main for a check that enumerates its cases itself (bounded
// exhaustive exploration): enumerate calls emit for every case; emit runs it,
// records it and returns false after a failure (which is reported through t).
// exhausted is what enumerate returns: whether the finite space was covered.
func MainEnum[C any](t *testing.T, p Prop[C], enumerate func(emit func(c C) bool) (exhausted bool)) {
	if only := os.Getenv("VERIF_ONLY"); only != "" && only != p.Name {
		t.Skip("not selected")
	}
	if os.Getenv("VERIF_REPLAY") != "" {
		Main(t, p)
		return
	}
	col := newCollector(p.ID, p.Name, p.Rule)
	defer col.flush()
	failFile := os.Getenv("VERIF_FAILFILE")
	failed := false
	exhausted := enumerate(func(c C) bool {
		raw, _ := json.Marshal(c)
		out, err := safeRun(p, c)
		col.record(raw, out)
		if err != nil {
			failed = true
			col.st.Failed = true
			col.st.FailMsg = err.Error()
			col.st.FailFile = failFile
			writeFail(failFile, raw, err.Error())
			t.Errorf("property %s/%s violated: %s\ncase: %s", p.ID, p.Name, trunc(err.Error(), 4000), trunc(string(raw), 1500))
			return false
		}
		return true
	})
	col.st.Exhaustive = exhausted && !failed
	if !failed {
		t.Logf("enumerated %d cases, exhausted=%v", col.st.Evaluations, exhausted)
	}
}

// ---------------------------------------------------------------- native fuzzing

// Fuzz registers the property as a Go native fuzz target: the fuzzer's bytes
// become rapid's random stream (rapid.MakeFuzz), so coverage guidance mutates
// the generated case; the oracle is the same Run. Each worker process writes
// its own statistics file (VERIF_STATS + "." + pid) and the failing case goes
// to VERIF_FAILFILE, exactly as in the rapid-driven mode.
func Fuzz[C any](f *testing.F, p Prop[C]) {
	col := newCollector(p.ID, p.Name, p.Rule)
	if col.statsOut != "" {
		col.statsOut = fmt.Sprintf("%s.%d", col.statsOut, os.Getpid())
	}
	failFile := os.Getenv("VERIF_FAILFILE")
	// rapid consumes 8 bytes per drawn value, a case needs hundreds of draws: seed the corpus
	// with buffers of a few KiB from a fixed PRNG (structured variety: random, low-entropy,
	// all-ones) so that the generator runs to completion from the first exec on
	x := uint64(0x9e3779b97f4a7c15)
	for i := 0; i < 12; i++ {
		buf := make([]byte, 2048<<uint(i%3))
		for j := range buf {
			x ^= x << 13
			x ^= x >> 7
			x ^= x << 17
			switch i % 4 {
			case 0, 1:
				buf[j] = byte(x)
			case 2:
				buf[j] = byte(x) & 0x07
			default:
				if j%8 == 0 {
					buf[j] = byte(x)
				}
			}
		}
		f.Add(buf)
	}
	n := 0
	f.Fuzz(rapid.MakeFuzz(func(rt *rapid.T) {
		c := p.Gen(rt)
		raw, jerr := json.Marshal(c)
		if jerr != nil {
			rt.Fatalf("harness: case not serialisable: %v", jerr)
		}
		out, err := safeRun(p, c)
		col.record(raw, out)
		n++
		if n%1000 == 0 {
			col.flush()
		}
		if err != nil {
			col.st.Failed = true
			col.st.FailMsg = err.Error()
			col.flush()
			writeFail(failFile, raw, err.Error())
			rt.Fatalf("property %s/%s violated: %s\ncase: %s", p.ID, p.Name, trunc(err.Error(), 4000), trunc(string(raw), 1500))
		}
	}))
}

package pbt

import (
	"encoding/hex"
	"fmt"
	"math"
	"os"
	"strconv"
	"strings"
	"unicode/utf8"

	"pgregory.net/rapid"
)

// S is an arbitrary byte string that survives JSON (encoding/json replaces
// invalid UTF-8, which would make a replay differ from the failing case).
// Valid UTF-8 is written as is; anything else (or a string that starts with
// the escape marker) as "~x"+hex.
type S string

func (s S) MarshalText() ([]byte, error) {
	str := string(s)
	if utf8.ValidString(str) && !strings.HasPrefix(str, "~x") {
		return []byte(str), nil
	}
	return []byte("~x" + hex.EncodeToString([]byte(str))), nil
}

func (s *S) UnmarshalText(b []byte) error {
	str := string(b)
	if strings.HasPrefix(str, "~x") {
		d, err := hex.DecodeString(str[2:])
		if err != nil {
			return err
		}
		*s = S(d)
		return nil
	}
	*s = S(str)
	return nil
}

// M is a tag map with JSON-safe keys and values.
type M map[S]S

// Std converts to the map type the tally API takes. A nil M stays nil.
func (m M) Std() map[string]string {
	if m == nil {
		return nil
	}
	r := make(map[string]string, len(m))
	for k, v := range m {
		r[string(k)] = string(v)
	}
	return r
}

func FromStd(m map[string]string) M {
	if m == nil {
		return nil
	}
	r := make(M, len(m))
	for k, v := range m {
		r[S(k)] = S(v)
	}
	return r
}

// F is a float64 carried as its bit pattern so that NaN payloads, -0 and
// infinities survive JSON.
type F uint64

func FOf(v float64) F      { return F(math.Float64bits(v)) }
func (f F) V() float64     { return math.Float64frombits(uint64(f)) }
func (f F) String() string { t, _ := f.MarshalText(); return string(t) }

func (f F) MarshalText() ([]byte, error) {
	v := f.V()
	if !math.IsNaN(v) && !math.IsInf(v, 0) && !(v == 0 && math.Signbit(v)) {
		return []byte(strconv.FormatFloat(v, 'g', -1, 64)), nil
	}
	return []byte(fmt.Sprintf("bits:%016x", uint64(f))), nil
}

func (f *F) UnmarshalText(b []byte) error {
	s := string(b)
	if strings.HasPrefix(s, "bits:") {
		u, err := strconv.ParseUint(s[5:], 16, 64)
		if err != nil {
			return err
		}
		*f = F(u)
		return nil
	}
	v, err := strconv.ParseFloat(s, 64)
	if err != nil {
		return err
	}
	*f = FOf(v)
	return nil
}

// ---------------------------------------------------------------- generators

// HostileFloats are the float64 constants every float generator mixes in.
var HostileFloats = []float64{
	0, math.Copysign(0, -1), 1, -1, 0.5, 2, 1e-9, 1e9,
	math.MaxFloat64, -math.MaxFloat64, math.SmallestNonzeroFloat64, -math.SmallestNonzeroFloat64,
	math.Inf(1), math.Inf(-1), math.NaN(),
	math.Float64frombits(0x7ff0000000000001), // signalling NaN
	math.Float64frombits(0xfff8000000000123), // negative quiet NaN with payload
	math.Float64frombits(0x000fffffffffffff), // largest subnormal
	float64(math.MaxInt64), float64(math.MinInt64), 9007199254740992, 9007199254740993,
	math.Nextafter(math.MaxFloat64, 0), math.Nextafter(-math.MaxFloat64, 0),
	18446744073709551616, -18446744073709551616, math.Nextafter(18446744073709551616, 0), 4294967296, 2147483648, 1e15, 1e21, 999999999999999900000,
}

// AnyFloat draws from hostile constants, small "nice" numbers and raw bits.
func AnyFloat() *rapid.Generator[F] {
	return rapid.Custom(func(t *rapid.T) F {
		switch rapid.IntRange(0, 9).Draw(t, "fk") {
		case 0, 1, 2:
			return FOf(rapid.SampledFrom(HostileFloats).Draw(t, "hostile"))
		case 3, 4, 5:
			return FOf(float64(rapid.IntRange(-50, 50).Draw(t, "small")) / 4)
		case 6, 7:
			return FOf(rapid.Float64().Draw(t, "f64"))
		default:
			return F(rapid.Uint64().Draw(t, "bits"))
		}
	})
}

// FiniteFloat is AnyFloat without NaN and infinities.
func FiniteFloat() *rapid.Generator[F] {
	return rapid.Custom(func(t *rapid.T) F {
		f := AnyFloat().Draw(t, "f")
		v := f.V()
		if math.IsNaN(v) || math.IsInf(v, 0) {
			return FOf(float64(int64(uint64(f)>>40)) / 8)
		}
		return f
	})
}

// HostileInts are the int64 constants every int generator mixes in.
var HostileInts = []int64{
	0, 1, -1, 2, -2, 127, 128, 255, 256, 1 << 31, -(1 << 31), (1 << 31) - 1, 1 << 32,
	math.MaxInt64, math.MinInt64, math.MaxInt64 - 1, math.MinInt64 + 1, 1 << 53, 1 << 62,
}

func AnyInt64() *rapid.Generator[int64] {
	return rapid.Custom(func(t *rapid.T) int64 {
		switch rapid.IntRange(0, 9).Draw(t, "ik") {
		case 0, 1, 2:
			return rapid.SampledFrom(HostileInts).Draw(t, "hostile")
		case 3, 4, 5, 6:
			return int64(rapid.IntRange(-20, 20).Draw(t, "small"))
		default:
			return rapid.Int64().Draw(t, "i64")
		}
	})
}

var hostileStrings = []string{
	"", " ", ".", "_", "-", ",", "=", "+", "a,b=c", "a=b", "k=v,", "+x", "\x00", "\xff", "\xc3", "\xe2\x82",
	"é", "日本", "éx", "\U0001F600", "�", "a\xffb", "a.b.c", "tally.internal.counter_cardinality",
	"bucket", "bucketid", "service", "env", "host", "le", "quantile",
}

// AnyString draws arbitrary byte strings (including invalid UTF-8) biased to
// short strings over a small alphabet so that collisions and overlaps happen.
func AnyString() *rapid.Generator[S] {
	return rapid.Custom(func(t *rapid.T) S {
		switch rapid.IntRange(0, 9).Draw(t, "sk") {
		case 0, 1:
			return S(rapid.SampledFrom(hostileStrings).Draw(t, "hostile"))
		case 2, 3, 4, 5:
			return S(rapid.StringMatching(`[a-c]{1,3}`).Draw(t, "short"))
		case 6, 7:
			return S(rapid.StringMatching(`[a-c,=+._\-é日 ]{0,6}`).Draw(t, "delims"))
		case 8:
			return S(rapid.String().Draw(t, "utf8"))
		default:
			return S(rapid.SliceOfN(rapid.Byte(), 0, 8).Draw(t, "bytes"))
		}
	})
}

// PlainString draws short delimiter-free identifiers.
func PlainString() *rapid.Generator[S] {
	return rapid.Custom(func(t *rapid.T) S {
		return S(rapid.StringMatching(`[a-d]{1,3}`).Draw(t, "plain"))
	})
}

// MapOf draws a tag map (possibly nil) with up to max entries.
func MapOf(key, val *rapid.Generator[S], max int) *rapid.Generator[M] {
	return rapid.Custom(func(t *rapid.T) M {
		n := rapid.IntRange(-1, max).Draw(t, "ntags")
		if n < 0 {
			return nil
		}
		m := M{}
		for i := 0; i < n; i++ {
			m[key.Draw(t, "k")] = val.Draw(t, "v")
		}
		return m
	})
}

// Spoil rewrites a tag map the harness has just handed to the library, as a
// caller that re-uses one map in a loop would: every value is overwritten and a
// key is added. The library copies tag maps on every derivation, so nothing it
// does afterwards may depend on the caller's map.
func Spoil(m map[string]string) {
	if m == nil {
		return
	}
	for k := range m {
		m[k] = "spoiled-by-caller"
	}
	m["spoiled_by_caller"] = "1"
}

// Thorough reports whether the driver runs the thorough tier (generators of
// real-time modes draw longer pauses then).
func Thorough() bool { return os.Getenv("VERIF_TIER") == "thorough" }

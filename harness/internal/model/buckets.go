// Package model holds reference models written independently of the code
// under test.
package model

import (
	"math"
	"sort"
	"time"
)

// VPair / DPair are reference bucket pairs.
type VPair struct{ Lo, Hi float64 }
type DPair struct{ Lo, Hi time.Duration }

// ValuePairs is the reference tiling for a value bucket specification:
// sorted bounds plus the terminal +max bucket, first lower bound -max.
// An empty specification gives the single all-covering bucket.
func ValuePairs(spec []float64) []VPair {
	s := append([]float64(nil), spec...)
	sort.Float64s(s)
	lo := -math.MaxFloat64
	var out []VPair
	for _, b := range s {
		out = append(out, VPair{lo, b})
		lo = b
	}
	return append(out, VPair{lo, math.MaxFloat64})
}

// DurationPairs is the same for durations.
func DurationPairs(spec []time.Duration) []DPair {
	s := append([]time.Duration(nil), spec...)
	sort.Slice(s, func(i, j int) bool { return s[i] < s[j] })
	lo := time.Duration(math.MinInt64)
	var out []DPair
	for _, b := range s {
		out = append(out, DPair{lo, b})
		lo = b
	}
	return append(out, DPair{lo, time.Duration(math.MaxInt64)})
}

// ValueBucketOf returns the upper bound of the bucket a sample belongs to:
// the smallest upper bound >= v (linear scan). ok=false for NaN.
func ValueBucketOf(pairs []VPair, v float64) (hi float64, ok bool) {
	if math.IsNaN(v) {
		return 0, false
	}
	if math.IsInf(v, 1) {
		return pairs[len(pairs)-1].Hi, true
	}
	for _, p := range pairs {
		if p.Hi >= v {
			return p.Hi, true
		}
	}
	return pairs[len(pairs)-1].Hi, true
}

// DurationBucketOf is the same for durations.
func DurationBucketOf(pairs []DPair, v time.Duration) time.Duration {
	for _, p := range pairs {
		if p.Hi >= v {
			return p.Hi
		}
	}
	return pairs[len(pairs)-1].Hi
}

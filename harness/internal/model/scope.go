package model

import (
	"sort"
	"unicode/utf8"
)

// San is the reference sanitizer configuration of one character class.
type San struct {
	Ranges [][2]rune
	Chars  []rune
}

// Opts mirrors tally.SanitizeOptions for the reference implementation.
type Opts struct {
	Name, Key, Value San
	Repl             rune
}

// Allowed reports whether r is allowed by s.
func (s San) Allowed(r rune) bool {
	for _, rg := range s.Ranges {
		if r >= rg[0] && r <= rg[1] {
			return true
		}
	}
	for _, c := range s.Chars {
		if c == r {
			return true
		}
	}
	return false
}

// Sanitize is the reference: every rune that is not allowed, and every byte
// that is not part of a valid UTF-8 encoding, becomes the replacement rune;
// everything else is copied. Written with utf8.DecodeRuneInString, sharing no
// code with the library.
func (s San) Sanitize(in string, repl rune) string {
	out := make([]byte, 0, len(in)+4)
	for i := 0; i < len(in); {
		r, w := utf8.DecodeRuneInString(in[i:])
		if r == utf8.RuneError && w == 1 {
			out = utf8.AppendRune(out, repl)
			i++
			continue
		}
		if s.Allowed(r) {
			out = append(out, in[i:i+w]...)
		} else {
			out = utf8.AppendRune(out, repl)
		}
		i += w
	}
	return string(out)
}

// Scope is the reference scope identity.
type Scope struct {
	Prefix string
	Tags   map[string]string
	Sep    string
	O      *Opts // nil: no sanitizer
}

func (o *Opts) name(s string) string {
	if o == nil {
		return s
	}
	return o.Name.Sanitize(s, o.Repl)
}

func (o *Opts) key(s string) string {
	if o == nil {
		return s
	}
	return o.Key.Sanitize(s, o.Repl)
}

func (o *Opts) value(s string) string {
	if o == nil {
		return s
	}
	return o.Value.Sanitize(s, o.Repl)
}

// SanName etc. expose the reference sanitizers (identity when o is nil).
func (o *Opts) SanName(s string) string  { return o.name(s) }
func (o *Opts) SanKey(s string) string   { return o.key(s) }
func (o *Opts) SanValue(s string) string { return o.value(s) }

// NewRoot models NewRootScope.
func NewRoot(prefix, sep string, tags map[string]string, o *Opts) Scope {
	if sep == "" {
		sep = "."
	}
	s := Scope{Prefix: o.name(prefix), Sep: o.name(sep), O: o, Tags: map[string]string{}}
	for k, v := range tags {
		s.Tags[o.key(k)] = o.value(v)
	}
	return s
}

// FQ is the fully qualified name of a metric or child prefix.
func (s Scope) FQ(name string) string {
	if s.Prefix == "" {
		return name
	}
	return s.Prefix + s.Sep + name
}

// Metric is the delivered name of metric `name` in this scope.
func (s Scope) Metric(name string) string { return s.FQ(s.O.name(name)) }

// Sub models SubScope.
func (s Scope) Sub(name string) Scope {
	c := s
	c.Prefix = s.FQ(s.O.name(name))
	return c
}

// Tagged models Tagged (right-biased overlay of sanitized tags).
func (s Scope) Tagged(tags map[string]string) Scope {
	c := s
	c.Tags = make(map[string]string, len(s.Tags)+len(tags))
	for k, v := range s.Tags {
		c.Tags[k] = v
	}
	for k, v := range tags {
		c.Tags[s.O.key(k)] = s.O.value(v)
	}
	return c
}

// RefKey is an unambiguous identity string for (prefix, tags).
func RefKey(prefix string, tags map[string]string) string {
	keys := make([]string, 0, len(tags))
	for k := range tags {
		keys = append(keys, k)
	}
	sort.Strings(keys)
	b := make([]byte, 0, 64)
	app := func(s string) {
		b = append(b, byte(len(s)>>24), byte(len(s)>>16), byte(len(s)>>8), byte(len(s)))
		b = append(b, s...)
	}
	app(prefix)
	for _, k := range keys {
		app(k)
		app(tags[k])
	}
	return string(b)
}

// LibKey reproduces the library's documented canonical key format
// (prefix '+' then sorted k=v joined by ','), used only to recognise the
// recorded delimiter-ambiguity finding: two different identities whose
// LibKey strings are byte-equal.
func LibKey(prefix string, tags map[string]string) string {
	keys := make([]string, 0, len(tags))
	for k := range tags {
		keys = append(keys, k)
	}
	sort.Strings(keys)
	var b []byte
	if prefix != "" {
		b = append(b, prefix...)
		b = append(b, '+')
	}
	for i, k := range keys {
		if i > 0 {
			b = append(b, ',')
		}
		b = append(b, k...)
		b = append(b, '=')
		b = append(b, tags[k]...)
	}
	return string(b)
}

// Package san holds the generated sanitizer configurations shared by the
// checks of C04 and C06.
package san

import (
	"strings"

	tally "github.com/uber-go/tally/v4"
	"pgregory.net/rapid"

	"verifharness/internal/model"
	"verifharness/internal/pbt"
)

type Class struct {
	Ranges [][2]int32 `json:"ranges,omitempty"`
	Chars  []int32    `json:"chars,omitempty"`
}

type Options struct {
	Name  Class `json:"name"`
	Key   Class `json:"key"`
	Value Class `json:"value"`
	Repl  int32 `json:"repl"`
	// how the slices handed to the library are laid out in memory (the values are the same):
	// 0 each slice on its own; 1 the three Ranges (and the three Characters) are consecutive pieces
	// of ONE backing array, each with capacity up to the array's end; 2 each slice on its own with
	// spare capacity that holds an allow-everything range / other characters; 3 like 1, and the
	// generator made the three Ranges equal so that all three are the SAME slice with spare capacity
	// (one shared table, as in Ranges: tally.AlphanumericRange given three times)
	Share int `json:"share,omitempty"`
}

func (c Class) Tally() tally.ValidCharacters {
	var v tally.ValidCharacters
	for _, r := range c.Ranges {
		v.Ranges = append(v.Ranges, tally.SanitizeRange{rune(r[0]), rune(r[1])})
	}
	for _, ch := range c.Chars {
		v.Characters = append(v.Characters, rune(ch))
	}
	return v
}

func (c Class) Model() model.San {
	var s model.San
	for _, r := range c.Ranges {
		s.Ranges = append(s.Ranges, [2]rune{rune(r[0]), rune(r[1])})
	}
	for _, ch := range c.Chars {
		s.Chars = append(s.Chars, rune(ch))
	}
	return s
}

func (o Options) Tally() tally.SanitizeOptions {
	so := tally.SanitizeOptions{NameCharacters: o.Name.Tally(), KeyCharacters: o.Key.Tally(), ValueCharacters: o.Value.Tally(), ReplacementCharacter: rune(o.Repl)}
	cls := []*tally.ValidCharacters{&so.NameCharacters, &so.KeyCharacters, &so.ValueCharacters}
	switch o.Share {
	case 1, 3:
		ranges := make([]tally.SanitizeRange, 0, 64)
		chars := make([]rune, 0, 64)
		for i, c := range cls {
			if o.Share == 3 && i > 0 {
				c.Ranges = cls[0].Ranges
			} else {
				at := len(ranges)
				ranges = append(ranges, c.Ranges...)
				c.Ranges = ranges[at:len(ranges)]
			}
			at := len(chars)
			chars = append(chars, c.Characters...)
			c.Characters = chars[at:len(chars)]
		}
	case 2:
		for _, c := range cls {
			r := append(append(make([]tally.SanitizeRange, 0, len(c.Ranges)+4), c.Ranges...), tally.SanitizeRange{0, 0x10FFFF}, tally.SanitizeRange{0, 0x10FFFF})
			c.Ranges = r[:len(c.Ranges)]
			ch := append(append(make([]rune, 0, len(c.Characters)+4), c.Characters...), 'a', '_', 'é')
			c.Characters = ch[:len(c.Characters)]
		}
	}
	return so
}

func (o Options) Model() *model.Opts {
	return &model.Opts{Name: o.Name.Model(), Key: o.Key.Model(), Value: o.Value.Model(), Repl: rune(o.Repl)}
}

var rangePool = [][2]int32{
	{'a', 'z'}, {'A', 'Z'}, {'0', '9'}, {'a', 'a'}, {'z', 'a'}, {'m', 'p'}, {'n', 'z'}, {0x80, 0x10FFFF}, {0xA0, 0xFFFF},
	{0xE9, 0xE9}, {0x3040, 0x30FF}, {0x1F600, 0x1F64F}, {0xFFFD, 0xFFFD}, {0, 0x7F}, {' ', '~'}, {0x7F, 0x80}, {0x7FF, 0x800}, {0xFFFF, 0x10000},
}

func GenClass() *rapid.Generator[Class] {
	return rapid.Custom(func(t *rapid.T) Class {
		var c Class
		nr := rapid.IntRange(0, 4).Draw(t, "nranges")
		for i := 0; i < nr; i++ {
			if rapid.IntRange(0, 3).Draw(t, "rk") == 0 {
				lo := int32(rapid.IntRange(0, 0x2FF).Draw(t, "lo"))
				c.Ranges = append(c.Ranges, [2]int32{lo, lo + int32(rapid.IntRange(-2, 40).Draw(t, "w"))})
			} else {
				c.Ranges = append(c.Ranges, rapid.SampledFrom(rangePool).Draw(t, "range"))
			}
		}
		nc := rapid.IntRange(0, 6).Draw(t, "nchars")
		for i := 0; i < nc; i++ {
			c.Chars = append(c.Chars, rapid.SampledFrom([]int32{'_', '-', '.', ':', ' ', 'é', '日', 0x1F600, 0xFFFD, ',', '=', '+', 'z', 'Z', '9', 0,
				0xD800, 0xDFFF, 0x110000, -1, 0x7FFFFFFF} /* the last five are no code points: such an entry allows nothing */).Draw(t, "char"))
		}
		return c
	})
}

func GenOptions() *rapid.Generator[Options] {
	return rapid.Custom(func(t *rapid.T) Options {
		o := Options{Name: GenClass().Draw(t, "name"), Key: GenClass().Draw(t, "key"), Value: GenClass().Draw(t, "value")}
		o.Repl = rapid.SampledFrom([]int32{'_', '_', '_', '-', '?', 'é', '日', 0x1F600, 'a', ' ', 0xFFFD}).Draw(t, "repl")
		o.Share = rapid.SampledFrom([]int{0, 0, 0, 1, 2, 3}).Draw(t, "share")
		if o.Share == 3 {
			o.Key.Ranges, o.Value.Ranges = o.Name.Ranges, o.Name.Ranges
		}
		return o
	})
}

// interesting runes for a class: range end points and their neighbours
func Alphabet(c Class, repl int32) []rune {
	rs := []rune{'a', 'z', 'A', 'Z', '0', '9', '_', '-', '.', ' ', 'é', '日', 0x1F600, 0xFFFD, '{', '`', '@', '[', '/', ':', rune(repl)}
	for _, r := range c.Ranges {
		for _, x := range []int32{r[0] - 1, r[0], r[0] + 1, r[1] - 1, r[1], r[1] + 1} {
			if x >= 0 && x <= 0x10FFFF && !(x >= 0xD800 && x <= 0xDFFF) {
				rs = append(rs, rune(x))
			}
		}
	}
	for _, ch := range c.Chars {
		rs = append(rs, rune(ch))
	}
	return rs
}

// (lead bytes cut off at every length - among them 0xEF, the lead byte of U+FFFD itself and of the
// BOM -, stray continuation bytes, overlong forms, surrogates, beyond-range)
var invalidSeqs = []string{"\xff", "\xc3", "\xe2\x82", "\xf0\x9f\x98", "\x80", "\xc0\xaf", "\xed\xa0\x80", "\xf4\x90\x80\x80",
	"\xef", "\xef\xbf", "\xef\xbb", "\xe6\x97", "\xe6", "\xf0", "\xf0\x9f", "\xc2", "\xdf", "\xbf\xbd", "\xbd", "\xe0\x80\x80", "\xf8\x88\x80\x80\x80", "\xfe"}

func GenInput(c Class, repl int32) *rapid.Generator[pbt.S] {
	al := Alphabet(c, repl)
	return rapid.Custom(func(t *rapid.T) pbt.S {
		var n int
		switch rapid.IntRange(0, 19).Draw(t, "lenk") {
		case 0:
			n = rapid.IntRange(200, 4096).Draw(t, "len")
		case 1:
			n = 0
		default:
			n = rapid.IntRange(1, 12).Draw(t, "len")
		}
		var b strings.Builder
		for b.Len() < n {
			switch rapid.IntRange(0, 9).Draw(t, "pk") {
			case 0:
				b.WriteString(rapid.SampledFrom(invalidSeqs).Draw(t, "inv"))
			default:
				b.WriteRune(rapid.SampledFrom(al).Draw(t, "r"))
			}
		}
		return pbt.S(b.String())
	})
}

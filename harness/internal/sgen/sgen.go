// Package sgen generates schedules (lists of scheduler choices) with rapid.
package sgen

import "pgregory.net/rapid"

// Choices draws a schedule: a list of up to maxLen scheduler choices. Choice
// 0 means "let the thread that ran last continue", k>0 "switch to the k-th
// other runnable thread". A per-case bias makes low-preemption schedules
// common (most bugs need only a few context switches at the right places)
// while still producing dense interleavings. An exhausted list means 0.
func Choices(t *rapid.T, maxLen, maxThreads int) []int {
	n := rapid.IntRange(0, maxLen).Draw(t, "schedLen")
	bias := rapid.SampledFrom([]int{1, 1, 2, 4, 8}).Draw(t, "schedBias")
	out := make([]int, n)
	g := rapid.IntRange(0, maxThreads*bias-1)
	for i := range out {
		v := g.Draw(t, "c")
		if v >= maxThreads {
			v = 0
		}
		out[i] = v
	}
	return out
}

// Package udpsink is a loopback UDP receiver used as the M3 collector /
// transport peer in the checks.
package udpsink

import (
	"net"
	"os"
	"sync"
	"time"
)

// processIP is a loopback address private to this process (the whole of
// 127.0.0.0/8 is local on Linux). Several test processes run at the same time
// and some cases deliberately keep sending to a port whose listener is gone;
// with a shared address such a datagram could land in another process's fresh
// sink that happened to get the same ephemeral port and be taken for a
// corrupted message there.
func processIP() net.IP {
	pid := os.Getpid()
	return net.IPv4(127, byte(1+pid%250), byte((pid/250)%250), byte(1+(pid/62500)%250))
}

// Sink receives datagrams on <process loopback address>:<ephemeral>.
type Sink struct {
	Conn *net.UDPConn
	Addr string

	mu     sync.Mutex
	grams  [][]byte
	closed bool
	done   chan struct{}
}

// New opens a sink with a large receive buffer and starts its reader.
func New() (*Sink, error) { return NewAt(0) }

// Port returns the UDP port the sink listens on.
func (s *Sink) Port() int { return s.Conn.LocalAddr().(*net.UDPAddr).Port }

// NewAt opens a sink on a specific loopback port (0 = ephemeral); used to
// bring a destination back after it went away.
func NewAt(port int) (*Sink, error) {
	c, err := net.ListenUDP("udp4", &net.UDPAddr{IP: processIP(), Port: port})
	if err != nil {
		return nil, err
	}
	_ = c.SetReadBuffer(4 << 20)
	s := &Sink{Conn: c, Addr: c.LocalAddr().String(), done: make(chan struct{})}
	go s.loop()
	return s, nil
}

func (s *Sink) loop() {
	defer close(s.done)
	buf := make([]byte, 70000)
	for {
		n, _, err := s.Conn.ReadFromUDP(buf)
		if err != nil {
			return
		}
		d := make([]byte, n)
		copy(d, buf[:n])
		s.mu.Lock()
		s.grams = append(s.grams, d)
		s.mu.Unlock()
	}
}

// Count returns the number of datagrams received so far.
func (s *Sink) Count() int {
	s.mu.Lock()
	defer s.mu.Unlock()
	return len(s.grams)
}

// WaitCount waits until at least n datagrams have arrived or timeout passes.
func (s *Sink) WaitCount(n int, timeout time.Duration) bool {
	deadline := time.Now().Add(timeout)
	for {
		if s.Count() >= n {
			return true
		}
		if time.Now().After(deadline) {
			return false
		}
		time.Sleep(50 * time.Microsecond)
	}
}

// WaitAll waits for datagrams whose absence would be reported as a violation: up to 30 s, so that a
// machine busy enough to starve the reader goroutine for seconds delays the verdict instead of
// falsifying it (a datagram that was never sent is still missing after 30 s; loopback does not lose
// datagrams while the receive buffer has room, and the checks keep little in flight).
func (s *Sink) WaitAll(n int) bool { return s.WaitCount(n, 30*time.Second) }

// Pace is back-pressure for senders that emit tens of thousands of datagrams in one case: it waits
// (at most 5 s) until all but `window` of the `sent` datagrams have been taken out of the socket.
// The kernel drops UDP datagrams silently once the receive buffer is full, which on a machine busy
// enough to starve the reader goroutine looks exactly like a lost batch.
// It reports false when the datagrams did not show up in time (the caller then stops pacing: they
// are not coming, and that is for the oracle to judge).
func (s *Sink) Pace(sent, window int) bool {
	if sent-s.Count() <= window {
		return true
	}
	return s.WaitCount(sent-window, 5*time.Second)
}

// Settle waits until no new datagram has arrived for quiet (bounded by max)
// and returns everything received so far.
func (s *Sink) Settle(quiet, max time.Duration) [][]byte {
	deadline := time.Now().Add(max)
	last := s.Count()
	lastChange := time.Now()
	for time.Now().Before(deadline) {
		time.Sleep(200 * time.Microsecond)
		if c := s.Count(); c != last {
			last = c
			lastChange = time.Now()
		} else if time.Since(lastChange) >= quiet {
			break
		}
	}
	return s.Datagrams()
}

// Datagrams returns a copy of the received datagrams.
func (s *Sink) Datagrams() [][]byte {
	s.mu.Lock()
	defer s.mu.Unlock()
	return append([][]byte(nil), s.grams...)
}

// Close stops the sink.
func (s *Sink) Close() {
	s.mu.Lock()
	if s.closed {
		s.mu.Unlock()
		return
	}
	s.closed = true
	s.mu.Unlock()
	_ = s.Conn.Close()
	<-s.done
}

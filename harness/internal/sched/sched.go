// Package sched is a cooperative scheduler for controlled goroutines
// ("threads"). The code under test calls Yield/Lock at its verif hook points;
// exactly one thread runs between two hook points, and which one runs next is
// decided by a list of choices that is part of the generated case, so a
// schedule is a value: it shrinks and replays.
package sched

import (
	"fmt"
	"runtime"
	"runtime/debug"
	"strings"
	"sync"
	"sync/atomic"
	"time"
)

type tstate int

const (
	stNew tstate = iota
	stParked
	stRunning
	stDetached // resumed, did not reach a hook within tau: blocked outside our control (or running free)
	stFinished
)

// Thread is a controlled goroutine.
type Thread struct {
	ID      int
	Name    string
	Adopted bool

	resume chan struct{}
	state  tstate
	site   string
	try    func() bool // non-nil while blocked on a lock probe
	spin   bool
	gid    int64
	steps  int
	done   atomic.Bool // set by the thread itself when it reaches a terminal site / returns

	// progress bookkeeping for busy-waiting threads (see Run)
	ownEvents int
	seenSeq   int
	ownSeen   int
}

// Done reports (safely from any goroutine) whether the thread has ended.
func (t *Thread) Done() bool { return t.done.Load() }

// Step is one entry of the schedule trace: thread T was resumed from Site.
type Step struct {
	T    int
	Site string // the site the thread was parked at when it was resumed
}

type evKind int

const (
	evYield evKind = iota
	evFinish
	evBlocking // the thread announces that it is about to block outside the scheduler's control
)

type event struct {
	t    *Thread
	kind evKind
}

// PanicInfo is a panic recovered in a controlled thread.
type PanicInfo struct {
	Thread string
	Value  string
	Stack  string
}

// Result is what Run reports.
type Result struct {
	Steps     int
	Trace     []Step
	Deadlock  bool   // no thread can make progress and not all have finished (exact)
	Hang      bool   // a thread stayed blocked outside the scheduler's control past the grace period
	StepLimit bool   // step budget exhausted (treated like a livelock by callers that claim liveness)
	Detail    string // which threads were stuck where
	Panics    []PanicInfo
	Detaches  int   // number of times a thread had to be treated as externally blocked
	Switches  int   // number of context switches (resumed thread != previously running thread)
	Options   []int // number of runnable threads at each decision (for exhaustive enumeration)
}

// Sched is one case's scheduler.
type Sched struct {
	mu       sync.Mutex
	threads  []*Thread
	byGID    map[int64]*Thread
	events   chan event
	choices  []int
	ci       int
	aborted  atomic.Bool
	trace    []Step
	panics   []PanicInfo
	detaches int
	switches int

	// AdoptPrefix: a goroutine the scheduler does not know that reaches a hook
	// whose site starts with this prefix becomes a controlled thread.
	AdoptPrefix string
	// TerminalSites: reaching one of these hooks ends an adopted thread.
	TerminalSites map[string]bool
	// Tau is how long a resumed thread may run without reaching a hook before
	// it is considered externally blocked.
	Tau time.Duration
	// Grace is how long the scheduler waits for externally blocked threads
	// when nothing else can run before declaring a hang.
	Grace time.Duration
	// MaxSteps bounds a case.
	MaxSteps int
	// IdleSites: resuming a thread parked at one of these sites means "wait
	// for the next external event (a tick)"; such threads are listed last, so
	// the default choice 0 never spins on them while anything else can run.
	IdleSites map[string]bool
	timer     *time.Timer

	options     []int
	probedSpin  bool
	lastStepped *Thread // the thread that made progress most recently
	progressSeq int     // number of events applied so far
}

// New creates a scheduler driven by choices. Choice semantics: at each
// decision the runnable threads are listed with the thread that ran last
// first; choice c picks entry c if c < len(list), else entry 0. An exhausted
// list means 0 ("let the current thread continue").
func New(choices []int) *Sched {
	return &Sched{
		byGID:    map[int64]*Thread{},
		events:   make(chan event, 256),
		choices:  choices,
		Tau:      20 * time.Millisecond,
		Grace:    30 * time.Second,
		MaxSteps: 20000,
	}
}

// Go starts fn as a controlled thread. It parks before running fn.
func (s *Sched) Go(name string, fn func()) *Thread {
	s.mu.Lock()
	t := &Thread{ID: len(s.threads), Name: name, resume: make(chan struct{}, 1), state: stNew, site: "start"}
	s.threads = append(s.threads, t)
	s.mu.Unlock()
	ready := make(chan struct{})
	go func() {
		g := gid()
		s.mu.Lock()
		t.gid = g
		s.byGID[g] = t
		s.mu.Unlock()
		defer func() {
			if r := recover(); r != nil {
				s.mu.Lock()
				s.panics = append(s.panics, PanicInfo{Thread: name, Value: fmt.Sprint(r), Stack: string(debug.Stack())})
				s.mu.Unlock()
			}
			s.mu.Lock()
			delete(s.byGID, g)
			s.mu.Unlock()
			t.done.Store(true)
			s.events <- event{t, evFinish}
		}()
		close(ready)
		<-t.resume
		if s.aborted.Load() {
			return
		}
		fn()
	}()
	<-ready
	t.state = stParked
	return t
}

func (s *Sched) lookup() *Thread {
	g := gid()
	s.mu.Lock()
	t := s.byGID[g]
	s.mu.Unlock()
	return t
}

// Yield is the hook: a schedule point named site.
func (s *Sched) Yield(site string) {
	t := s.lookup()
	if t == nil {
		if s.AdoptPrefix == "" || !strings.HasPrefix(site, s.AdoptPrefix) || s.aborted.Load() {
			return
		}
		t = s.adopt(site)
	}
	s.park(t, site, nil)
}

func (s *Sched) adopt(site string) *Thread {
	g := gid()
	s.mu.Lock()
	t := &Thread{ID: len(s.threads), Name: "adopted:" + site, Adopted: true, resume: make(chan struct{}, 1), state: stDetached, gid: g}
	s.threads = append(s.threads, t)
	s.byGID[g] = t
	s.mu.Unlock()
	return t
}

func (s *Sched) park(t *Thread, site string, try func() bool) {
	if s.aborted.Load() {
		s.exitThread(t)
	}
	if t.Adopted && s.TerminalSites[site] {
		s.mu.Lock()
		delete(s.byGID, t.gid)
		s.mu.Unlock()
		t.site = site
		t.done.Store(true)
		s.events <- event{t, evFinish}
		return
	}
	if strings.HasSuffix(site, ":blocking") {
		// the thread is about to wait for other threads (e.g. a WaitGroup): do not
		// park it, tell the scheduler to go on without waiting for Tau
		t.site = site
		s.events <- event{t, evBlocking}
		return
	}
	t.site = site
	t.try = try
	t.spin = strings.HasSuffix(site, ":spin")
	s.events <- event{t, evYield}
	<-t.resume
	if s.aborted.Load() {
		s.exitThread(t)
	}
}

func (s *Sched) exitThread(t *Thread) {
	if t.Adopted {
		s.mu.Lock()
		delete(s.byGID, t.gid)
		s.mu.Unlock()
	}
	runtime.Goexit()
}

// Lock is the lock-probe hook: it returns when try succeeded, i.e. when the
// real acquisition that follows will not block (no other controlled thread
// runs in between).
func (s *Sched) Lock(try func() bool, site string) {
	t := s.lookup()
	if t == nil {
		return
	}
	for !try() {
		s.park(t, site, try)
	}
}

// WaitAdopted blocks until n adopted threads are parked (or the timeout
// expires) and reports whether that happened. Call before Run.
func (s *Sched) WaitAdopted(n int, timeout time.Duration) bool {
	deadline := time.After(timeout)
	for {
		c := 0
		s.mu.Lock()
		for _, t := range s.threads {
			if t.Adopted && t.state == stParked {
				c++
			}
		}
		s.mu.Unlock()
		if c >= n {
			return true
		}
		select {
		case e := <-s.events:
			s.apply(e)
		case <-deadline:
			return false
		}
	}
}

func (s *Sched) apply(e event) {
	// any event is progress made by e.t: busy-waiting threads may look again
	s.lastStepped = e.t
	s.progressSeq++
	e.t.ownEvents++
	if e.kind != evYield || !e.t.spin {
		s.probedSpin = false
	}
	switch e.kind {
	case evYield:
		e.t.state = stParked
	case evFinish:
		e.t.state = stFinished
	case evBlocking:
		e.t.state = stDetached
		s.detaches++
	}
}

func (s *Sched) nextChoice() int {
	if s.ci < len(s.choices) {
		c := s.choices[s.ci]
		s.ci++
		return c
	}
	return 0
}

// ChoicesUsed reports how many entries of the choice list were consumed.
func (s *Sched) ChoicesUsed() int { return s.ci }

func (s *Sched) snapshotThreads() []*Thread {
	s.mu.Lock()
	defer s.mu.Unlock()
	return append([]*Thread(nil), s.threads...)
}

// Run schedules until every thread has finished, or nothing can progress.
func (s *Sched) Run() Result {
	s.timer = time.NewTimer(time.Hour)
	defer s.timer.Stop()
	var cur *Thread
	waited := 0
	steps := 0
	spinOnly := 0
	var res Result
	for {
		// drain pending events (detached threads arriving, adoptions)
	drain:
		for {
			select {
			case e := <-s.events:
				s.apply(e)
			default:
				break drain
			}
		}
		threads := s.snapshotThreads()
		var runnable []*Thread
		allDone := true
		detached := 0
		nonSpin := false
		spinWaiting := 0
		for _, t := range threads {
			switch t.state {
			case stFinished:
				continue
			case stDetached, stRunning:
				detached++
				allDone = false
				continue
			}
			allDone = false
			if t.try != nil && !t.try() {
				continue // still blocked on its lock
			}
			if t.spin && (s.progressSeq-t.seenSeq) <= (t.ownEvents-t.ownSeen) {
				// no event of any OTHER thread has been applied since t was last
				// resumed (events applied after that may not have been seen by t,
				// so they count as news)
				// a busy-waiting thread can only see a change after some other
				// thread has made a step (or while a thread runs outside our control)
				spinWaiting++
				continue
			}
			runnable = append(runnable, t)
			if !t.spin {
				nonSpin = true
			}
		}
		if allDone {
			break
		}
		if len(runnable) == 0 && spinWaiting > 0 && detached > 0 {
			// busy-waiters may be waiting for a thread that runs outside our control
			time.Sleep(20 * time.Microsecond)
			s.progressSeq++ // a thread outside our control may have moved on
			if waited++; waited < 200000 {
				continue
			}
		}
		if len(runnable) == 0 && spinWaiting > 0 && detached == 0 && !s.probedSpin {
			// Only busy-waiters are left. Before calling it a livelock let each of them look
			// once more: a hook named ":spin" that does not sit in a loop any more (after a
			// refactoring) must not be mistaken for one.
			s.probedSpin = true
			s.progressSeq++
			continue
		}
		if len(runnable) == 0 {
			if detached > 0 {
				// wait for an externally blocked thread to come back
				if !s.waitEvent(s.Grace) {
					res.Hang = true
					res.Detail = s.describe(threads)
					break
				}
				spinOnly = 0
				continue
			}
			res.Deadlock = true
			res.Detail = s.describe(threads)
			break
		}
		if !nonSpin {
			spinOnly++
			if detached > 0 {
				time.Sleep(20 * time.Microsecond)
			}
		} else {
			spinOnly = 0
		}
		if steps >= s.MaxSteps {
			res.StepLimit = true
			res.Detail = s.describe(threads)
			break
		}
		// order: current first
		if cur != nil {
			for i, t := range runnable {
				if t == cur {
					copy(runnable[1:i+1], runnable[:i])
					runnable[0] = cur
					break
				}
			}
		}
		{
			var busy, idle, spin []*Thread
			for _, t := range runnable {
				switch {
				case t.spin:
					spin = append(spin, t)
				case s.IdleSites[t.site]:
					idle = append(idle, t)
				default:
					busy = append(busy, t)
				}
			}
			runnable = append(append(busy, idle...), spin...)
		}
		s.options = append(s.options, len(runnable))
		c := s.nextChoice()
		if c >= len(runnable) {
			c = 0
		}
		t := runnable[c]
		if t != cur && cur != nil {
			s.switches++
		}
		cur = t
		s.lastStepped = t
		steps++
		t.steps++
		s.trace = append(s.trace, Step{T: t.ID, Site: t.site})
		t.state = stRunning
		t.try = nil
		t.seenSeq, t.ownSeen = s.progressSeq, t.ownEvents
		t.resume <- struct{}{}
		// wait for t to reach its next hook or finish
		s.waitFor(t)
	}
	res.Steps = steps
	res.Trace = s.trace
	res.Detaches = s.detaches
	res.Switches = s.switches
	res.Options = s.options
	if res.Deadlock || res.Hang || res.StepLimit {
		s.Abort()
	}
	s.mu.Lock()
	res.Panics = append(res.Panics, s.panics...)
	s.mu.Unlock()
	return res
}

// waitFor waits until t parks or finishes, or Tau passes (then t is detached).
func (s *Sched) waitFor(t *Thread) {
	if !s.timer.Stop() {
		select {
		case <-s.timer.C:
		default:
		}
	}
	s.timer.Reset(s.Tau)
	for {
		select {
		case e := <-s.events:
			s.apply(e)
			if e.t == t {
				return
			}
		case <-s.timer.C:
			t.state = stDetached
			s.detaches++
			return
		}
	}
}

func (s *Sched) waitEvent(d time.Duration) bool {
	select {
	case e := <-s.events:
		s.apply(e)
		return true
	case <-time.After(d):
		return false
	}
}

func (s *Sched) describe(threads []*Thread) string {
	var b strings.Builder
	for _, t := range threads {
		st := map[tstate]string{stNew: "new", stParked: "parked", stRunning: "running", stDetached: "blocked-outside", stFinished: "finished"}[t.state]
		lk := ""
		if t.try != nil {
			lk = " (waiting for lock)"
		}
		fmt.Fprintf(&b, "[%d %s: %s at %s%s] ", t.ID, t.Name, st, t.site, lk)
	}
	return b.String()
}

// Abort releases every parked thread; each exits (running its deferred
// functions) at its current hook. Threads blocked outside the scheduler leak.
func (s *Sched) Abort() {
	if s.aborted.Swap(true) {
		return
	}
	for _, t := range s.snapshotThreads() {
		if t.state == stParked || t.state == stNew {
			select {
			case t.resume <- struct{}{}:
			default:
			}
		}
	}
	// give them a moment to unwind so that their deferred unlocks run before
	// the next case starts
	deadline := time.After(200 * time.Millisecond)
	for {
		alive := 0
		for _, t := range s.snapshotThreads() {
			if t.state != stFinished && !t.Adopted {
				alive++
			}
		}
		if alive == 0 {
			return
		}
		select {
		case e := <-s.events:
			s.apply(e)
		case <-deadline:
			return
		}
	}
}

// Finished reports whether the named thread has finished.
func (s *Sched) Finished(t *Thread) bool { return t.state == stFinished }

// Threads returns the threads (including adopted ones).
func (s *Sched) Threads() []*Thread { return s.snapshotThreads() }

// Site returns where t is parked.
func (t *Thread) Site() string { return t.site }

// PreemptedAt reports whether some thread sat parked at a site matching one
// of prefixes while at least one other thread ran, i.e. a real preemption
// inside that window. Trace[i] says thread T was resumed from Site at step i,
// so between two consecutive steps a<b of T the thread was parked at
// Trace[b].Site during steps a+1..b-1.
func PreemptedAt(trace []Step, prefixes ...string) bool {
	return CountPreempted(trace, prefixes...) > 0
}

// CountPreempted counts such preempted windows.
func CountPreempted(trace []Step, prefixes ...string) int {
	last := map[int]int{}
	n := 0
	for i, st := range trace {
		if a, ok := last[st.T]; ok && i > a+1 && matches(st.Site, prefixes) {
			n++
		}
		last[st.T] = i
	}
	return n
}

func matches(site string, prefixes []string) bool {
	for _, p := range prefixes {
		if strings.HasPrefix(site, p) {
			return true
		}
	}
	return false
}

// ---------------------------------------------------------------- free mode

// Free is the free-running mode: hooks perturb the real scheduler with
// pseudo-random Gosched calls; goroutines really run in parallel. Used with
// -race, where cooperative hand-overs would hide every race.
type Free struct {
	state atomic.Uint64
}

func NewFree(seed uint64) *Free {
	f := &Free{}
	f.state.Store(seed*0x9e3779b97f4a7c15 + 1)
	return f
}

func (f *Free) next() uint64 {
	x := f.state.Add(0x9e3779b97f4a7c15)
	x ^= x >> 30
	x *= 0xbf58476d1ce4e5b9
	x ^= x >> 27
	x *= 0x94d049bb133111eb
	x ^= x >> 31
	return x
}

func (f *Free) Yield(site string) {
	switch f.next() % 8 {
	case 0, 1:
		runtime.Gosched()
	case 2:
		for i := 0; i < 50; i++ {
			runtime.Gosched()
		}
	}
}

func (f *Free) Lock(try func() bool, site string) { f.Yield(site) }

// Adopted returns the adopted threads.
func (s *Sched) Adopted() []*Thread {
	var out []*Thread
	for _, t := range s.snapshotThreads() {
		if t.Adopted {
			out = append(out, t)
		}
	}
	return out
}

// Enumerate explores, depth first, every schedule with at most maxPreempt
// non-default choices. run executes one schedule (a choice prefix; the rest is
// "continue") and returns the number of options at each decision it met; it
// returns false to stop. The scenario must be deterministic: the same prefix
// must meet the same options. Returns the number of schedules run and whether
// the space was exhausted.
func Enumerate(maxPreempt, maxRuns int, run func(prefix []int) (options []int, ok bool)) (runs int, exhausted bool) {
	prefix := []int{}
	for runs < maxRuns {
		options, ok := run(prefix)
		runs++
		if !ok {
			return runs, false
		}
		choices := make([]int, len(options))
		copy(choices, prefix)
		i := len(options) - 1
		for ; i >= 0; i-- {
			used := 0
			for _, c := range choices[:i] {
				if c != 0 {
					used++
				}
			}
			if choices[i]+1 < options[i] && used+1 <= maxPreempt {
				choices[i]++
				prefix = append([]int(nil), choices[:i+1]...)
				break
			}
		}
		if i < 0 {
			return runs, true
		}
	}
	return runs, false
}

// CurrentName returns the name of the controlled thread that is calling, or ""
// when the caller is not a controlled thread.
func (s *Sched) CurrentName() string {
	if t := s.lookup(); t != nil {
		return t.Name
	}
	return ""
}

//go:build !amd64

package sched

import "runtime"

// gid parses the goroutine id from a stack trace header (slow path).
func gid() int64 {
	var buf [64]byte
	n := runtime.Stack(buf[:], false)
	s := buf[10:n]
	var id int64
	for _, c := range s {
		if c < '0' || c > '9' {
			break
		}
		id = id*10 + int64(c-'0')
	}
	return id
}

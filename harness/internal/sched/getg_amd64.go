//go:build amd64

package sched

func getg() uintptr

func gid() int64 { return int64(getg()) }

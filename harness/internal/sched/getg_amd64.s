#include "textflag.h"

// func getg() uintptr
// Returns the address of the current goroutine's g structure; used only as
// an identity for controlled goroutines while they are alive.
TEXT ·getg(SB),NOSPLIT,$0-8
	MOVQ (TLS), R14
	MOVQ R14, ret+0(FP)
	RET

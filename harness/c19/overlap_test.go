package c19

import (
	"fmt"
	"sync"
	"testing"
	"time"

	tally "github.com/uber-go/tally/v4"
	"github.com/uber-go/tally/v4/multi"
	"pgregory.net/rapid"

	"verifharness/internal/pbt"
)

// OverlapCase: several goroutines use one multi reporter at once - the scope's report loop, a
// Scope.Close and user code may all end up in Flush (or in a report) at the same moment. One
// child holds one of its Flush calls open (as a network reporter draining its queue would) while
// the other goroutines go on. "Every report and flush made on a multi reporter results in exactly
// one call on each child" does not depend on who else is inside the reporter: at the end every
// child must have seen as many Flush calls as were made and each goroutine's reports in order.
type OverlapCase struct {
	Cached   bool       `json:"cached"`
	Children int        `json:"children"`
	Threads  [][]string `json:"threads"` // per goroutine: "r" report | "f" flush
	Slow     int        `json:"slow"`    // child whose Flush is held open
	SlowAt   int        `json:"slowAt"`  // its k-th Flush call (1-based) is the one held open
	HoldMS   int        `json:"holdMS"`  // at most this long, less if every other goroutine finished
}

func genOverlap(t *rapid.T) OverlapCase {
	n := rapid.IntRange(1, 4).Draw(t, "children")
	c := OverlapCase{Cached: rapid.Bool().Draw(t, "cached"), Children: n, Slow: rapid.IntRange(0, n-1).Draw(t, "slow"),
		SlowAt: rapid.IntRange(1, 3).Draw(t, "slowAt"), HoldMS: rapid.SampledFrom([]int{1, 5, 20}).Draw(t, "holdMS")}
	nt := rapid.IntRange(2, 4).Draw(t, "threads")
	for i := 0; i < nt; i++ {
		c.Threads = append(c.Threads, rapid.SliceOfN(rapid.SampledFrom([]string{"r", "f", "f"}), 1, 5).Draw(t, "ops"))
	}
	return c
}

type ovChild struct {
	mu      sync.Mutex
	reports map[int][]int64 // per goroutine (encoded in the value): values in arrival order
	flushes int
	holdAt  int
	entered chan struct{}
	release chan struct{}
}

func (c *ovChild) note(v int64) {
	c.mu.Lock()
	c.reports[int(v>>32)] = append(c.reports[int(v>>32)], v&0xffffffff)
	c.mu.Unlock()
}

func (c *ovChild) Flush() {
	c.mu.Lock()
	c.flushes++
	n := c.flushes
	c.mu.Unlock()
	if n == c.holdAt {
		close(c.entered)
		<-c.release
	}
}

func (c *ovChild) Capabilities() tally.Capabilities { return ovCaps{} }

type ovCaps struct{}

func (ovCaps) Reporting() bool { return true }
func (ovCaps) Tagging() bool   { return true }

type ovStats struct{ *ovChild }

func (c ovStats) ReportCounter(name string, tags map[string]string, v int64) { c.note(v) }
func (c ovStats) ReportGauge(string, map[string]string, float64)             {}
func (c ovStats) ReportTimer(string, map[string]string, time.Duration)       {}
func (c ovStats) ReportHistogramValueSamples(string, map[string]string, tally.Buckets, float64, float64, int64) {
}
func (c ovStats) ReportHistogramDurationSamples(string, map[string]string, tally.Buckets, time.Duration, time.Duration, int64) {
}

type ovCached struct{ *ovChild }
type ovCount struct{ c *ovChild }

func (h ovCount) ReportCount(v int64) { h.c.note(v) }
func (c ovCached) AllocateCounter(string, map[string]string) tally.CachedCount {
	return ovCount{c.ovChild}
}
func (c ovCached) AllocateGauge(string, map[string]string) tally.CachedGauge { return nil }
func (c ovCached) AllocateTimer(string, map[string]string) tally.CachedTimer { return nil }
func (c ovCached) AllocateHistogram(string, map[string]string, tally.Buckets) tally.CachedHistogram {
	return nil
}

func runOverlap(c OverlapCase) (pbt.Outcome, error) {
	var errs pbt.Errs
	var out pbt.Outcome
	children := make([]*ovChild, c.Children)
	for i := range children {
		children[i] = &ovChild{reports: map[int][]int64{}, entered: make(chan struct{}), release: make(chan struct{})}
	}
	children[c.Slow].holdAt = c.SlowAt
	var report func(v int64)
	var flush func()
	if c.Cached {
		var rs []tally.CachedStatsReporter
		for _, ch := range children {
			rs = append(rs, ovCached{ch})
		}
		m := multi.NewMultiCachedReporter(rs...)
		h := m.AllocateCounter("c", nil)
		report, flush = h.ReportCount, m.Flush
	} else {
		var rs []tally.StatsReporter
		for _, ch := range children {
			rs = append(rs, ovStats{ch})
		}
		m := multi.NewMultiReporter(rs...)
		report, flush = func(v int64) { m.ReportCounter("c", nil, v) }, m.Flush
	}
	totalFlushes := 0
	want := map[int][]int64{}
	var wg sync.WaitGroup
	fin := make(chan struct{}, len(c.Threads))
	for ti, ops := range c.Threads {
		for oi, op := range ops {
			if op == "f" {
				totalFlushes++
			} else {
				want[ti] = append(want[ti], int64(oi))
			}
		}
		wg.Add(1)
		go func(ti int, ops []string) {
			defer wg.Done()
			defer func() { fin <- struct{}{} }()
			for oi, op := range ops {
				if op == "f" {
					flush()
				} else {
					report(int64(ti)<<32 | int64(oi))
				}
			}
		}(ti, ops)
	}
	done := make(chan struct{})
	go func() { wg.Wait(); close(done) }()
	held := false
	select {
	case <-children[c.Slow].entered:
		// a Flush is held open inside the slow child: give the others time to run into it (an
		// implementation that serialises flushes makes them wait - equally fine - so the hold ends
		// by itself; the time only selects the interleaving, it decides nothing)
		held = true
		timeout := time.After(time.Duration(c.HoldMS) * time.Millisecond)
	wait:
		for others := 0; others < len(c.Threads)-1; {
			select {
			case <-fin:
				others++
			case <-timeout:
				break wait
			}
		}
		close(children[c.Slow].release)
		<-done
	case <-done:
		close(children[c.Slow].release)
	}
	for i, ch := range children {
		ch.mu.Lock()
		if ch.flushes != totalFlushes {
			errs.Addf("child %d saw %d Flush calls, %d were made on the multi reporter (one of its Flush calls was held open meanwhile: %v)", i, ch.flushes, totalFlushes, held)
		}
		if fmt.Sprint(ch.reports) != fmt.Sprint(want) {
			errs.Addf("child %d received reports %v (per goroutine, in order), made %v", i, ch.reports, want)
		}
		ch.mu.Unlock()
	}
	out.NonTrivial = held && totalFlushes >= 2
	if held {
		out.Classes = append(out.Classes, "flush-held-open")
	}
	return out, errs.Err()
}

func TestOverlap(t *testing.T) {
	pbt.Main(t, pbt.Prop[OverlapCase]{
		ID: "C19", Name: "overlap",
		Rule: "rapid-generated concurrent use of one multi reporter (plain or cached, 1..4 children): 2..4 goroutines each make 1..5 calls (counter report through the reporter or an allocated handle, or Flush) while one child holds its 1st..3rd Flush call open for at most 1/5/20 ms (less if all other goroutines are done; the time selects the interleaving and decides nothing). At the end every child must have seen exactly as many Flush calls as were made on the multi reporter, and every goroutine's reports, each once and in that goroutine's order. Non-trivial: a Flush was actually held open and at least two flushes were made. Free-running: a failing case is re-run up to 30 times before it counts as reproduced.",
		Gen:  genOverlap, Run: runOverlap, Retries: 30, HangAfter: 60 * time.Second,
	})
}

// C19: a multi reporter forwards every call to every child exactly once, in
// registration order; capabilities are the conjunction; zero children is fine.
package c19

import (
	"fmt"
	"io"
	"math"
	"testing"
	"time"

	tally "github.com/uber-go/tally/v4"
	"github.com/uber-go/tally/v4/multi"
	"pgregory.net/rapid"

	"verifharness/internal/pbt"
	"verifharness/internal/rec"
)

type Child struct {
	Reporting bool
	Tagging   bool
}

type Op struct {
	Kind    string // plain: counter gauge timer hvalue hduration flush caps; cached: allocc allocg alloct alloch rcount rgauge rtimer vbucket dbucket rsamples flush caps
	Name    pbt.S
	Tags    pbt.M
	I       int64
	F       pbt.F
	Lo, Hi  pbt.F
	DLo     int64
	DHi     int64
	Spec    []pbt.F // value spec; if SpecDur, interpreted as durations (nanoseconds, truncated)
	SpecDur bool
	SpecNil bool
	H       int // handle selector (modulo number of suitable handles)
}

type Case struct {
	Cached   bool
	Children []Child
	Ops      []Op
	// Groups (optional): sizes of consecutive groups of Children. A group of size 1 is given to the
	// multi reporter as the child itself; a negative size -k or a size >= 2 or 0 means that the k
	// children of the group are first combined into a NESTED multi reporter of the same flavour
	// (possibly with no or one child), which is then one argument of the outer one. Every leaf must
	// still get each call exactly once, in the flat order, and the capabilities are the conjunction
	// over all leaves.
	Groups []int `json:",omitempty"`
}

// grouping returns, per argument of the outer reporter, the indices of the leaves behind it and
// whether they are wrapped in a nested multi reporter.
func (c Case) grouping() (groups [][]int, nested []bool) {
	if len(c.Groups) == 0 {
		for i := range c.Children {
			groups, nested = append(groups, []int{i}), append(nested, false)
		}
		return
	}
	at := 0
	for _, g := range c.Groups {
		k, wrap := g, g != 1
		if g < 0 {
			k = -g
		}
		if at+k > len(c.Children) {
			k = len(c.Children) - at
		}
		var idx []int
		for i := 0; i < k; i++ {
			idx = append(idx, at+i)
		}
		at += k
		if !wrap && len(idx) != 1 {
			wrap = true
		}
		groups, nested = append(groups, idx), append(nested, wrap)
	}
	for ; at < len(c.Children); at++ {
		groups, nested = append(groups, []int{at}), append(nested, false)
	}
	return
}

func gen(t *rapid.T) Case {
	c := Case{Cached: rapid.Bool().Draw(t, "cached")}
	n := rapid.SampledFrom([]int{0, 1, 2, 2, 3, 3, 4, 5}).Draw(t, "nchildren")
	for i := 0; i < n; i++ {
		c.Children = append(c.Children, Child{rapid.Bool().Draw(t, "rep"), rapid.Bool().Draw(t, "tag")})
	}
	if rapid.IntRange(0, 2).Draw(t, "nested?") == 0 {
		for left := n; left > 0; {
			g := rapid.SampledFrom([]int{0, 1, -1, 2, 2, 3}).Draw(t, "group")
			c.Groups = append(c.Groups, g)
			if g < 0 {
				g = -g
			}
			left -= g
		}
		if rapid.Bool().Draw(t, "trailingEmpty") {
			c.Groups = append(c.Groups, 0)
		}
	}
	kinds := []string{"counter", "gauge", "timer", "hvalue", "hduration", "flush", "caps", "caps", "close", "setcaps"}
	if c.Cached {
		kinds = []string{"allocc", "allocg", "alloct", "alloch", "alloch", "rcount", "rgauge", "rtimer", "vbucket", "dbucket", "vbucket", "rsamples", "rsamples", "rsamples", "flush", "caps", "caps", "close", "setcaps"}
	}
	nops := rapid.IntRange(1, 30).Draw(t, "nops")
	for i := 0; i < nops; i++ {
		op := Op{Kind: rapid.SampledFrom(kinds).Draw(t, "kind")}
		switch op.Kind {
		case "flush", "caps", "close":
		case "setcaps":
			// a child's own answer changes (a backend that connects late, say): the conjunction follows
			op.H = rapid.IntRange(0, 7).Draw(t, "h")
			op.I = int64(rapid.IntRange(0, 3).Draw(t, "caps"))
		case "rcount", "rsamples":
			op.I = pbt.AnyInt64().Draw(t, "i")
			op.H = rapid.IntRange(0, 7).Draw(t, "h")
		case "rtimer":
			op.I = pbt.AnyInt64().Draw(t, "i")
			op.H = rapid.IntRange(0, 7).Draw(t, "h")
		case "rgauge":
			op.F = pbt.AnyFloat().Draw(t, "f")
			op.H = rapid.IntRange(0, 7).Draw(t, "h")
		case "vbucket":
			op.Lo, op.Hi = pbt.AnyFloat().Draw(t, "lo"), pbt.AnyFloat().Draw(t, "hi")
			op.H = rapid.IntRange(0, 7).Draw(t, "h")
		case "dbucket":
			op.DLo, op.DHi = pbt.AnyInt64().Draw(t, "dlo"), pbt.AnyInt64().Draw(t, "dhi")
			op.H = rapid.IntRange(0, 7).Draw(t, "h")
		default:
			op.Name = pbt.AnyString().Draw(t, "name")
			op.Tags = pbt.MapOf(pbt.AnyString(), pbt.AnyString(), 3).Draw(t, "tags")
			op.I = pbt.AnyInt64().Draw(t, "i")
			op.F = pbt.AnyFloat().Draw(t, "f")
			op.Lo, op.Hi = pbt.AnyFloat().Draw(t, "lo"), pbt.AnyFloat().Draw(t, "hi")
			op.DLo, op.DHi = pbt.AnyInt64().Draw(t, "dlo"), pbt.AnyInt64().Draw(t, "dhi")
			if op.Kind == "hvalue" || op.Kind == "hduration" || op.Kind == "alloch" {
				op.SpecNil = rapid.IntRange(0, 5).Draw(t, "specnil") == 0
				op.SpecDur = rapid.Bool().Draw(t, "specdur")
				op.Spec = rapid.SliceOfN(pbt.FiniteFloat(), 0, 4).Draw(t, "spec")
			}
		}
		c.Ops = append(c.Ops, op)
	}
	return c
}

func (o Op) spec() tally.Buckets {
	if o.SpecNil {
		return nil
	}
	if o.SpecDur {
		d := make(tally.DurationBuckets, len(o.Spec))
		for i, f := range o.Spec {
			d[i] = time.Duration(int64(uint64(f) >> 1))
		}
		return d
	}
	v := make(tally.ValueBuckets, len(o.Spec))
	for i, f := range o.Spec {
		v[i] = f.V()
	}
	return v
}

func sameSpec(a, b tally.Buckets) bool {
	if a == nil || b == nil {
		return a == nil && b == nil
	}
	return fmt.Sprintf("%T", a) == fmt.Sprintf("%T", b) && fmt.Sprint(bits(a.AsValues())) == fmt.Sprint(bits(b.AsValues())) && fmt.Sprint(a.AsDurations()) == fmt.Sprint(b.AsDurations())
}

func bits(v []float64) []uint64 {
	r := make([]uint64, len(v))
	for i := range v {
		r[i] = math.Float64bits(v[i])
	}
	return r
}

func sameTags(a, b map[string]string) bool {
	if len(a) != len(b) {
		return false
	}
	for k, v := range a {
		if w, ok := b[k]; !ok || w != v {
			return false
		}
	}
	return true
}

func sameEvent(got, want rec.Event) bool {
	return got.Kind == want.Kind && got.Name == want.Name && sameTags(got.Tags, want.Tags) &&
		got.I == want.I && math.Float64bits(got.F) == math.Float64bits(want.F) &&
		math.Float64bits(got.Lo) == math.Float64bits(want.Lo) && math.Float64bits(got.Hi) == math.Float64bits(want.Hi) &&
		got.DLo == want.DLo && got.DHi == want.DHi && got.Handle == want.Handle && got.Parent == want.Parent &&
		got.Thread == want.Thread && sameSpec(got.Spec, want.Spec)
}

type mhandle struct {
	kind   string // c g t h vb db
	id     int
	obj    interface{}
	name   string
	tags   map[string]string
	spec   tally.Buckets
	parent int
	lo, hi float64
	dlo    time.Duration
	dhi    time.Duration
}

func run(c Case) (pbt.Outcome, error) {
	var errs pbt.Errs
	out := pbt.Outcome{}
	log := &rec.Log{}
	n := len(c.Children)
	var want []rec.Event
	emit := func(e rec.Event) {
		for i := 0; i < n; i++ {
			e.Thread = i
			want = append(want, e)
		}
	}
	cur := append([]Child(nil), c.Children...) // what each child currently says about itself
	setters := make([]func(tally.Capabilities), len(c.Children))
	capsChanged := false
	setCaps := func(op Op) {
		if len(cur) == 0 {
			return
		}
		i := op.H % len(cur)
		cur[i].Reporting, cur[i].Tagging = op.I&1 != 0, op.I&2 != 0
		setters[i](rec.Caps(cur[i].Reporting, cur[i].Tagging))
		capsChanged = true
	}
	checkCaps := func(cp tally.Capabilities) {
		wantR, wantT := true, true
		for _, ch := range cur {
			wantR = wantR && ch.Reporting
			wantT = wantT && ch.Tagging
		}
		if cp.Reporting() != wantR || cp.Tagging() != wantT {
			errs.Addf("capabilities = (%v,%v), want conjunction (%v,%v) of what the children say now: %v", cp.Reporting(), cp.Tagging(), wantR, wantT, cur)
		}
	}
	bucketCalls := 0
	closedOnce := false

	if !c.Cached {
		var children []tally.StatsReporter
		groups, nested := c.grouping()
		for gi, idx := range groups {
			var leaves []tally.StatsReporter
			for _, i := range idx {
				leaf := &rec.Stats{L: log, Child: i, Caps: rec.Caps(c.Children[i].Reporting, c.Children[i].Tagging)}
				setters[i] = func(cp tally.Capabilities) { leaf.Caps = cp }
				leaves = append(leaves, leaf)
			}
			if nested[gi] {
				children = append(children, multi.NewMultiReporter(leaves...))
			} else {
				children = append(children, leaves...)
			}
		}
		m := multi.NewMultiReporter(children...)
		for _, op := range c.Ops {
			tags := op.Tags.Std()
			switch op.Kind {
			case "counter":
				m.ReportCounter(string(op.Name), tags, op.I)
				emit(rec.Event{Kind: rec.KCounter, Name: string(op.Name), Tags: tags, I: op.I})
			case "gauge":
				m.ReportGauge(string(op.Name), tags, op.F.V())
				emit(rec.Event{Kind: rec.KGauge, Name: string(op.Name), Tags: tags, F: op.F.V()})
			case "timer":
				m.ReportTimer(string(op.Name), tags, time.Duration(op.I))
				emit(rec.Event{Kind: rec.KTimer, Name: string(op.Name), Tags: tags, I: op.I})
			case "hvalue":
				sp := op.spec()
				m.ReportHistogramValueSamples(string(op.Name), tags, sp, op.Lo.V(), op.Hi.V(), op.I)
				emit(rec.Event{Kind: rec.KHValue, Name: string(op.Name), Tags: tags, Spec: sp, Lo: op.Lo.V(), Hi: op.Hi.V(), I: op.I})
				bucketCalls++
			case "hduration":
				sp := op.spec()
				m.ReportHistogramDurationSamples(string(op.Name), tags, sp, time.Duration(op.DLo), time.Duration(op.DHi), op.I)
				emit(rec.Event{Kind: rec.KHDuration, Name: string(op.Name), Tags: tags, Spec: sp, DLo: time.Duration(op.DLo), DHi: time.Duration(op.DHi), I: op.I})
				bucketCalls++
			case "flush":
				m.Flush()
				emit(rec.Event{Kind: rec.KFlush})
			case "caps":
				checkCaps(m.Capabilities())
			case "setcaps":
				setCaps(op)
			case "close":
				// a scope closes a reporter that can be closed; should the multi reporter offer that,
				// it is used - and the reporter goes on being used, as a reporter shared by a second
				// root scope is (the recording children are not closers, so no child call is due)
				if cl, ok := m.(io.Closer); ok {
					_ = cl.Close()
					closedOnce = true
				}
			}
		}
		checkCaps(m.Capabilities())
	} else {
		var children []tally.CachedStatsReporter
		groups, nested := c.grouping()
		for gi, idx := range groups {
			var leaves []tally.CachedStatsReporter
			for _, i := range idx {
				leaf := &rec.Cached{L: log, Child: i, Caps: rec.Caps(c.Children[i].Reporting, c.Children[i].Tagging)}
				setters[i] = func(cp tally.Capabilities) { leaf.Caps = cp }
				leaves = append(leaves, leaf)
			}
			if nested[gi] {
				children = append(children, multi.NewMultiCachedReporter(leaves...))
			} else {
				children = append(children, leaves...)
			}
		}
		m := multi.NewMultiCachedReporter(children...)
		var hs []mhandle
		nextID := 0
		pick := func(sel int, kinds ...string) *mhandle {
			var idx []int
			for i, h := range hs {
				for _, k := range kinds {
					if h.kind == k {
						idx = append(idx, i)
					}
				}
			}
			if len(idx) == 0 {
				return nil
			}
			return &hs[idx[sel%len(idx)]]
		}
		for _, op := range c.Ops {
			tags := op.Tags.Std()
			name := string(op.Name)
			switch op.Kind {
			case "allocc":
				nextID++
				hs = append(hs, mhandle{kind: "c", id: nextID, obj: m.AllocateCounter(name, tags), name: name, tags: tags})
				emit(rec.Event{Kind: rec.KAllocC, Name: name, Tags: tags, Handle: nextID})
			case "allocg":
				nextID++
				hs = append(hs, mhandle{kind: "g", id: nextID, obj: m.AllocateGauge(name, tags), name: name, tags: tags})
				emit(rec.Event{Kind: rec.KAllocG, Name: name, Tags: tags, Handle: nextID})
			case "alloct":
				nextID++
				hs = append(hs, mhandle{kind: "t", id: nextID, obj: m.AllocateTimer(name, tags), name: name, tags: tags})
				emit(rec.Event{Kind: rec.KAllocT, Name: name, Tags: tags, Handle: nextID})
			case "alloch":
				nextID++
				sp := op.spec()
				if sp == nil {
					sp = tally.ValueBuckets{}
				}
				hs = append(hs, mhandle{kind: "h", id: nextID, obj: m.AllocateHistogram(name, tags, sp), name: name, tags: tags, spec: sp})
				emit(rec.Event{Kind: rec.KAllocH, Name: name, Tags: tags, Handle: nextID, Spec: sp})
			case "rcount":
				if h := pick(op.H, "c"); h != nil {
					h.obj.(tally.CachedCount).ReportCount(op.I)
					emit(rec.Event{Kind: rec.KCounter, Name: h.name, Tags: h.tags, Handle: h.id, I: op.I})
				}
			case "rgauge":
				if h := pick(op.H, "g"); h != nil {
					h.obj.(tally.CachedGauge).ReportGauge(op.F.V())
					emit(rec.Event{Kind: rec.KGauge, Name: h.name, Tags: h.tags, Handle: h.id, F: op.F.V()})
				}
			case "rtimer":
				if h := pick(op.H, "t"); h != nil {
					h.obj.(tally.CachedTimer).ReportTimer(time.Duration(op.I))
					emit(rec.Event{Kind: rec.KTimer, Name: h.name, Tags: h.tags, Handle: h.id, I: op.I})
				}
			case "vbucket":
				if h := pick(op.H, "h"); h != nil {
					nextID++
					b := h.obj.(tally.CachedHistogram).ValueBucket(op.Lo.V(), op.Hi.V())
					hs = append(hs, mhandle{kind: "vb", id: nextID, obj: b, name: h.name, tags: h.tags, spec: h.spec, parent: h.id, lo: op.Lo.V(), hi: op.Hi.V()})
					emit(rec.Event{Kind: rec.KBucketV, Name: h.name, Tags: h.tags, Handle: nextID, Parent: h.id, Lo: op.Lo.V(), Hi: op.Hi.V(), Spec: h.spec})
					bucketCalls++
				}
			case "dbucket":
				if h := pick(op.H, "h"); h != nil {
					nextID++
					b := h.obj.(tally.CachedHistogram).DurationBucket(time.Duration(op.DLo), time.Duration(op.DHi))
					hs = append(hs, mhandle{kind: "db", id: nextID, obj: b, name: h.name, tags: h.tags, spec: h.spec, parent: h.id, dlo: time.Duration(op.DLo), dhi: time.Duration(op.DHi)})
					emit(rec.Event{Kind: rec.KBucketD, Name: h.name, Tags: h.tags, Handle: nextID, Parent: h.id, DLo: time.Duration(op.DLo), DHi: time.Duration(op.DHi), Spec: h.spec})
					bucketCalls++
				}
			case "rsamples":
				if h := pick(op.H, "vb", "db"); h != nil {
					h.obj.(tally.CachedHistogramBucket).ReportSamples(op.I)
					if h.kind == "vb" {
						emit(rec.Event{Kind: rec.KHValue, Name: h.name, Tags: h.tags, Handle: h.id, Parent: h.parent, Lo: h.lo, Hi: h.hi, I: op.I, Spec: h.spec})
					} else {
						emit(rec.Event{Kind: rec.KHDuration, Name: h.name, Tags: h.tags, Handle: h.id, Parent: h.parent, DLo: h.dlo, DHi: h.dhi, I: op.I, Spec: h.spec})
					}
					bucketCalls++
				}
			case "flush":
				m.Flush()
				emit(rec.Event{Kind: rec.KFlush})
			case "caps":
				checkCaps(m.Capabilities())
			case "setcaps":
				setCaps(op)
			case "close":
				if cl, ok := m.(io.Closer); ok {
					_ = cl.Close()
					closedOnce = true
				}
			}
		}
		checkCaps(m.Capabilities())
	}

	got := log.Events()
	if len(got) != len(want) {
		errs.Addf("children received %d calls in total, want %d (%d children)", len(got), len(want), n)
	}
	for i := 0; i < len(got) && i < len(want); i++ {
		if !sameEvent(got[i], want[i]) {
			errs.Addf("call #%d: got child=%d %v, want child=%d %v", i, got[i].Thread, got[i], want[i].Thread, want[i])
			break
		}
	}
	out.NonTrivial = n >= 2 && bucketCalls >= 1
	out.Classes = append(out.Classes, fmt.Sprintf("children=%d", n))
	if capsChanged {
		out.Classes = append(out.Classes, "child-capabilities-changed")
	}
	if c.Cached {
		out.Classes = append(out.Classes, "cached")
	} else {
		out.Classes = append(out.Classes, "plain")
	}
	if bucketCalls > 0 {
		out.Classes = append(out.Classes, "has-bucket-call")
	}
	if len(c.Groups) > 0 {
		out.Classes = append(out.Classes, "nested-multi-reporters")
	}
	if closedOnce {
		out.Classes = append(out.Classes, "multi-reporter-closed-and-used-on")
	}
	return out, errs.Err()
}

func TestC19(t *testing.T) {
	pbt.Main(t, pbt.Prop[Case]{
		ID: "C19", Name: "multi",
		Rule: "rapid-generated call histories (1..30 calls, all argument values incl. non-finite floats, int64 extremes, arbitrary byte strings) on a plain or cached multi reporter with 0..5 recording children of all capability combinations, which may change what they say about themselves in the course of the history (the multi reporter's capabilities are the conjunction of what the children say when it is asked); the children's merged global call log must equal, call by call and child by child in registration order, the log predicted from the calls made on the multi reporter. Non-trivial: >=2 children and >=1 histogram bucket call. Distinct: FNV-64 of the case JSON.",
		Gen:  gen, Run: run, HangAfter: 20 * time.Second,
	})
}

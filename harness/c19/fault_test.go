package c19

import (
	"fmt"
	"testing"
	"time"

	tally "github.com/uber-go/tally/v4"
	"github.com/uber-go/tally/v4/multi"
	"pgregory.net/rapid"

	"verifharness/internal/pbt"
	"verifharness/internal/rec"
)

// FaultCase: one child panics (once) inside one of its calls; the panic reaches
// the caller, which recovers. Every call made AFTERWARDS must again reach every
// child exactly once, in registration order, and must return (no lock left held).
type FaultCase struct {
	Cached   bool     `json:"cached"`
	Children int      `json:"children"`
	Bad      int      `json:"bad"`     // index of the child that panics
	BadKind  string   `json:"badKind"` // flush | report : the kind of call in which it panics
	Before   []string `json:"before"`  // calls before the faulty one: report | flush
	After    []string `json:"after"`   // calls after it
}

func genFault(t *rapid.T) FaultCase {
	n := rapid.IntRange(1, 4).Draw(t, "children")
	calls := rapid.SliceOfN(rapid.SampledFrom([]string{"report", "report", "flush"}), 0, 4)
	c := FaultCase{Cached: rapid.Bool().Draw(t, "cached"), Children: n, Bad: rapid.IntRange(0, n-1).Draw(t, "bad"),
		BadKind: rapid.SampledFrom([]string{"flush", "flush", "report"}).Draw(t, "badKind"),
		Before:  calls.Draw(t, "before"), After: rapid.SliceOfN(rapid.SampledFrom([]string{"report", "flush", "flush"}), 1, 5).Draw(t, "after")}
	return c
}

var faultSentinel = fmt.Errorf("child reporter fault")

type faultyStats struct {
	*rec.Stats
	armed *string // kind of call to panic in; cleared after the panic
}

func (f faultyStats) Flush() {
	if *f.armed == "flush" {
		*f.armed = ""
		panic(faultSentinel)
	}
	f.Stats.Flush()
}

func (f faultyStats) ReportCounter(name string, tags map[string]string, v int64) {
	if *f.armed == "report" {
		*f.armed = ""
		panic(faultSentinel)
	}
	f.Stats.ReportCounter(name, tags, v)
}

type faultyCached struct {
	*rec.Cached
	armed *string
}

func (f faultyCached) Flush() {
	if *f.armed == "flush" {
		*f.armed = ""
		panic(faultSentinel)
	}
	f.Cached.Flush()
}

type faultyCount struct {
	tally.CachedCount
	armed *string
}

func (f faultyCount) ReportCount(v int64) {
	if *f.armed == "report" {
		*f.armed = ""
		panic(faultSentinel)
	}
	f.CachedCount.ReportCount(v)
}

func (f faultyCached) AllocateCounter(name string, tags map[string]string) tally.CachedCount {
	return faultyCount{f.Cached.AllocateCounter(name, tags), f.armed}
}

func runFault(c FaultCase) (pbt.Outcome, error) {
	var errs pbt.Errs
	log := &rec.Log{}
	armed := ""
	var report func(v int64)
	var flush func()
	if c.Cached {
		var children []tally.CachedStatsReporter
		for i := 0; i < c.Children; i++ {
			r := &rec.Cached{L: log, Child: i}
			if i == c.Bad {
				children = append(children, faultyCached{r, &armed})
			} else {
				children = append(children, r)
			}
		}
		m := multi.NewMultiCachedReporter(children...)
		h := m.AllocateCounter("c", map[string]string{"k": "v"})
		report, flush = func(v int64) { h.ReportCount(v) }, m.Flush
	} else {
		var children []tally.StatsReporter
		for i := 0; i < c.Children; i++ {
			r := &rec.Stats{L: log, Child: i}
			if i == c.Bad {
				children = append(children, faultyStats{r, &armed})
			} else {
				children = append(children, r)
			}
		}
		m := multi.NewMultiReporter(children...)
		report, flush = func(v int64) { m.ReportCounter("c", map[string]string{"k": "v"}, v) }, m.Flush
	}
	// call runs one call on its own goroutine with a watchdog: a call that does not return within
	// 20 s has hung (e.g. on a lock the faulty call left held)
	call := func(kind string, v int64) (panicked interface{}, hung bool) {
		done := make(chan interface{}, 1)
		go func() {
			defer func() { done <- recover() }()
			if kind == "flush" {
				flush()
			} else {
				report(v)
			}
		}()
		select {
		case p := <-done:
			return p, false
		case <-time.After(20 * time.Second):
			return nil, true
		}
	}
	v := int64(0)
	for _, k := range c.Before {
		v++
		if p, hung := call(k, v); p != nil || hung {
			errs.Addf("call %s before the fault: panic=%v hung=%v", k, p, hung)
			return pbt.Outcome{}, errs.Err()
		}
	}
	armed = c.BadKind
	v++
	p, hung := call(c.BadKind, v)
	if hung {
		errs.Addf("the faulty %s call hung", c.BadKind)
		errs.Poison()
		return pbt.Outcome{}, errs.Err()
	}
	if p != interface{}(faultSentinel) {
		// a multi reporter that contains the child's panic is fine too; anything else is not
		if p != nil {
			errs.Addf("the faulty call panicked with %v, not with the child's own panic value", p)
		}
	}
	mark := log.Mark("after-fault")
	var want []rec.Event
	for _, k := range c.After {
		v++
		p, hung := call(k, v)
		if hung {
			errs.Addf("a %s call made after a child had panicked once in a %s call (and the caller had recovered) did not return within 20s", k, c.BadKind)
			errs.Poison()
			return pbt.Outcome{}, errs.Err()
		}
		if p != nil {
			errs.Addf("a %s call after the fault panicked: %v", k, p)
		}
		for i := 0; i < c.Children; i++ {
			if k == "flush" {
				want = append(want, rec.Event{Kind: rec.KFlush, Thread: i})
			} else {
				want = append(want, rec.Event{Kind: rec.KCounter, Thread: i, I: v})
			}
		}
	}
	var got []rec.Event
	for _, e := range log.Events() {
		if e.Seq > mark && (e.Kind == rec.KFlush || e.Kind == rec.KCounter) {
			got = append(got, e)
		}
	}
	if len(got) != len(want) {
		errs.Addf("after the fault the children received %d calls, want %d: %v", len(got), len(want), got)
	}
	for i := 0; i < len(got) && i < len(want); i++ {
		if got[i].Kind != want[i].Kind || got[i].Thread != want[i].Thread || got[i].I != want[i].I {
			errs.Addf("after the fault, call #%d: got child=%d %v, want child=%d %s %d", i, got[i].Thread, got[i], want[i].Thread, want[i].Kind, want[i].I)
			break
		}
	}
	return pbt.Outcome{NonTrivial: c.Children >= 2, Classes: []string{"fault-in-" + c.BadKind}}, errs.Err()
}

func TestFault(t *testing.T) {
	pbt.Main(t, pbt.Prop[FaultCase]{
		ID: "C19", Name: "fault",
		Rule: "fault sequences: a plain or cached multi reporter with 1..4 recording children, one of which panics ONCE inside a Flush or a counter report (the panic reaches the caller, which recovers); 0..4 calls before and 1..5 calls (reports, flushes) after. Oracle: every call made after the fault returns (20 s watchdog: a lock left held by the unwound call is a hang) and reaches every child exactly once, in registration order, with its value. What happens to the faulty call itself is not judged. Non-trivial: >=2 children.",
		Gen:  genFault, Run: runFault,
	})
}

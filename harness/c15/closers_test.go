package c15

import (
	"fmt"
	"sync"
	"testing"
	"time"

	"github.com/uber-go/tally/v4/m3/thriftudp"
	"github.com/uber-go/tally/v4/thirdparty/github.com/apache/thrift/lib/go/thrift"
	"pgregory.net/rapid"

	"verifharness/internal/pbt"
	"verifharness/internal/udpsink"
)

// ClosersCase: "Close is idempotent and use after Close yields a not-open error rather than a
// panic" - also when several owners of one transport close it at the same moment (a reporter being
// closed from a shutdown hook and a deferred Close, say): every Close returns nil, the transport is
// closed afterwards and stays refused for use. Repeated on fresh transports, the goroutines released
// together, because the window exists once per transport.
type ClosersCase struct {
	Sinks   int `json:"sinks"` // 0: plain transport; 1..3: multi transport
	Closers int `json:"closers"`
	Pending int `json:"pending"` // bytes written and not flushed when the closers start
	Rounds  int `json:"rounds"`
}

func genClosers(t *rapid.T) ClosersCase {
	return ClosersCase{Sinks: rapid.IntRange(0, 3).Draw(t, "sinks"), Closers: rapid.IntRange(2, 8).Draw(t, "closers"),
		Pending: rapid.SampledFrom([]int{0, 0, 5, 300}).Draw(t, "pending"), Rounds: rapid.SampledFrom([]int{1, 30, 100}).Draw(t, "rounds")}
}

func runClosers(c ClosersCase) (pbt.Outcome, error) {
	var out pbt.Outcome
	nsinks := c.Sinks
	if nsinks == 0 {
		nsinks = 1
	}
	var sinks []*udpsink.Sink
	var addrs []string
	for i := 0; i < nsinks; i++ {
		s, err := udpsink.New()
		if err != nil {
			return out, fmt.Errorf("harness: %v", err)
		}
		defer s.Close()
		sinks, addrs = append(sinks, s), append(addrs, s.Addr)
	}
	rounds := c.Rounds
	if rounds < 1 {
		rounds = 1
	}
	for r := 0; r < rounds; r++ {
		var errs pbt.Errs
		var tr thrift.TTransport
		if c.Sinks == 0 {
			t1, err := thriftudp.NewTUDPClientTransport(addrs[0], "")
			if err != nil {
				return out, fmt.Errorf("harness: %v", err)
			}
			tr = t1
		} else {
			tm, err := thriftudp.NewTMultiUDPClientTransport(addrs, "")
			if err != nil {
				return out, fmt.Errorf("harness: %v", err)
			}
			tr = tm
		}
		if c.Pending > 0 {
			if _, err := tr.Write(payload(c.Pending, 7)); err != nil {
				errs.Addf("Write(%d) on a new transport: %v", c.Pending, err)
			}
		}
		start := make(chan struct{})
		var wg sync.WaitGroup
		var mu sync.Mutex
		for g := 0; g < c.Closers; g++ {
			wg.Add(1)
			go func(g int) {
				defer wg.Done()
				defer func() {
					if p := recover(); p != nil {
						mu.Lock()
						errs.Addf("Close call %d panicked: %v", g, p)
						mu.Unlock()
					}
				}()
				<-start
				if err := tr.Close(); err != nil {
					mu.Lock()
					errs.Addf("Close call %d of %d made at the same moment returned %v (Close is idempotent: nil)", g, c.Closers, err)
					mu.Unlock()
				}
			}(g)
		}
		close(start)
		wg.Wait()
		if tr.IsOpen() {
			errs.Addf("IsOpen() is true after %d Close calls returned", c.Closers)
		}
		if _, err := tr.Write([]byte{1}); err == nil {
			errs.Addf("Write after Close succeeded")
		} else if kindOf(err) != thrift.NOT_OPEN {
			errs.Addf("Write after Close: %v (kind %d), want a not-open error", err, kindOf(err))
		}
		if err := tr.Flush(); err == nil {
			errs.Addf("Flush after Close succeeded")
		}
		if err := tr.Close(); err != nil {
			errs.Addf("a further Close returned %v", err)
		}
		if err := errs.Err(); err != nil {
			return out, fmt.Errorf("round %d of %d: %v", r+1, rounds, err)
		}
	}
	// nothing that was pending at Close was ever flushed: no datagram may have been sent
	time.Sleep(300 * time.Microsecond)
	for si, s := range sinks {
		if n := s.Count(); n != 0 {
			return out, fmt.Errorf("sink %d received %d datagrams although nothing was ever flushed", si, n)
		}
	}
	out.NonTrivial = true
	out.Classes = append(out.Classes, fmt.Sprintf("closers=%d", c.Closers), fmt.Sprintf("rounds=%d", rounds))
	return out, nil
}

func TestClosers(t *testing.T) {
	pbt.Main(t, pbt.Prop[ClosersCase]{
		ID: "C15", Name: "closers",
		Rule: "free-running mode (real goroutines, -race): 2..8 goroutines, released together, call Close on one fresh plain or multi (1..3 destinations) UDP transport that holds 0/5/300 unflushed bytes; repeated on 1/30/100 fresh transports. Oracle: every Close returns nil and none panics, IsOpen() is false afterwards, Write then yields a not-open error and Flush an error, a further Close returns nil, and no datagram was ever sent (nothing was flushed). Every case is non-trivial (>=2 closers). Free-running: a failing case is re-run up to 60 times before it counts as reproduced.",
		Gen:  genClosers, Run: runClosers, Retries: 60, HangAfter: 60 * time.Second,
	})
}

package c15

import (
	"bytes"
	"fmt"
	"testing"
	"time"

	"github.com/uber-go/tally/v4/m3/thriftudp"
	"pgregory.net/rapid"

	"verifharness/internal/pbt"
	"verifharness/internal/udpsink"
)

// OutageCase: the destination of a plain transport goes away and comes back (a collector restart).
// A send into the void succeeds, the kernel then reports ECONNREFUSED on a later send and does not
// perform that one. Whatever the transport makes of this: a Flush that returned nil while the
// destination was listening has transmitted its message - exactly one datagram with exactly the
// bytes written -, every datagram received is one flushed message, none twice, in order.
type OutageCase struct {
	Steps []string `json:"steps"` // "m" write+flush a message | "down" | "up"
	Size  int      `json:"size"`
}

func genOutage(t *rapid.T) OutageCase {
	c := OutageCase{Size: rapid.SampledFrom([]int{1, 40, 1400, 9000}).Draw(t, "size")}
	n := rapid.IntRange(3, 14).Draw(t, "n")
	up := true
	for i := 0; i < n; i++ {
		switch k := rapid.IntRange(0, 3).Draw(t, "k"); {
		case k == 0 && up:
			c.Steps = append(c.Steps, "down")
			up = false
		case k == 0 && !up:
			c.Steps = append(c.Steps, "up")
			up = true
		default:
			c.Steps = append(c.Steps, "m")
		}
	}
	if !up {
		c.Steps = append(c.Steps, "up")
	}
	c.Steps = append(c.Steps, "m", "m", "m")
	return c
}

func runOutage(c OutageCase) (pbt.Outcome, error) {
	var errs pbt.Errs
	var out pbt.Outcome
	sink, err := udpsink.New()
	if err != nil {
		return out, fmt.Errorf("harness: cannot open sink: %v", err)
	}
	port := sink.Port()
	tr, err := thriftudp.NewTUDPClientTransport(sink.Addr, "")
	if err != nil {
		sink.Close()
		return out, fmt.Errorf("harness: %v", err)
	}
	defer tr.Close()
	type msg struct {
		data    []byte
		ok, up  bool
		flushNo int
	}
	var msgs []msg
	var received [][]byte // over all incarnations of the sink, in order
	up := true
	mustHave := 0 // messages of the current incarnation flushed with nil while it was up
	outages, refused := 0, 0
	for si, st := range c.Steps {
		switch st {
		case "down":
			if !up {
				continue
			}
			// everything owed to this incarnation has to be taken out of its socket before it goes
			if !sink.WaitAll(mustHave) {
				errs.Addf("step %d: the destination has %d datagrams, %d messages were flushed successfully to it", si, sink.Count(), mustHave)
			}
			received = append(received, sink.Datagrams()...)
			sink.Close()
			up, mustHave = false, 0
			outages++
		case "up":
			if up {
				continue
			}
			s2, err := udpsink.NewAt(port)
			if err != nil {
				return out, fmt.Errorf("harness: cannot re-open the destination port: %v", err)
			}
			sink, up = s2, true
		default:
			data := append(payload(c.Size, byte(si)), 0xF5, byte(len(msgs)>>8), byte(len(msgs)), 0x5F)
			if _, werr := tr.Write(data); werr != nil {
				errs.Addf("step %d: Write of %d bytes: %v", si, len(data), werr)
				continue
			}
			ferr := tr.Flush()
			msgs = append(msgs, msg{data: data, ok: ferr == nil, up: up})
			if ferr != nil {
				refused++
				if outages == 0 {
					errs.Addf("step %d: Flush failed although the destination never went away: %v", si, ferr)
				}
			} else if up {
				mustHave++
			}
			time.Sleep(100 * time.Microsecond) // let the ICMP answer to a send into the void come back
		}
	}
	if !sink.WaitAll(mustHave) {
		errs.Addf("at the end the destination has %d datagrams, %d messages were flushed successfully to it since it came back", sink.Count(), mustHave)
	}
	received = append(received, sink.Settle(2*time.Millisecond, 50*time.Millisecond)...)
	sink.Close()
	// every received datagram is one flushed message; in order; none twice
	next := 0
	got := map[int]bool{}
	for di, d := range received {
		found := -1
		for mi := next; mi < len(msgs); mi++ {
			if bytes.Equal(d, msgs[mi].data) {
				found = mi
				break
			}
		}
		if found < 0 {
			errs.Addf("datagram %d (%d bytes %s) is not a flushed message that was still due (duplicate, reordered, or foreign bytes)", di, len(d), head(d))
			continue
		}
		got[found] = true
		next = found + 1
	}
	for mi, m := range msgs {
		if m.ok && m.up && !got[mi] {
			errs.Addf("message %d: Flush returned nil while the destination was listening, but no datagram with its bytes arrived", mi)
		}
	}
	out.NonTrivial = outages > 0
	if refused > 0 {
		out.Classes = append(out.Classes, "send-refused-after-outage")
	}
	return out, errs.Err()
}

func TestOutage(t *testing.T) {
	pbt.Main(t, pbt.Prop[OutageCase]{
		ID: "C15", Name: "outage",
		Rule: "rapid-generated histories on one plain transport whose destination goes away and comes back on the same port (3..14 steps of message / down / up, then three messages with the destination up; message size 1..9000 bytes plus a sequence trailer; before the destination goes down everything owed to it is taken out of its socket). Oracle (validity predicate): a Flush fails only after an outage; every message whose Flush returned nil while the destination was listening arrives, byte-equal; every datagram received is a flushed message that was still due - none twice, none reordered, no foreign bytes. Non-trivial: at least one outage.",
		Gen:  genOutage, Run: runOutage, HangAfter: 120 * time.Second,
	})
}

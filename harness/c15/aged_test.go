package c15

import (
	"bytes"
	"fmt"
	"testing"
	"time"

	"github.com/uber-go/tally/v4/m3/thriftudp"
	"github.com/uber-go/tally/v4/thirdparty/github.com/apache/thrift/lib/go/thrift"
	"pgregory.net/rapid"

	"verifharness/internal/pbt"
	"verifharness/internal/udpsink"
)

// AgedCase: nothing in the property depends on how long ago a transport was created or last used:
// a message flushed after the transport has been sitting idle is transmitted like the first one.
// The pause is real time (the transport arms kernel/runtime timers, if any, against the real clock),
// so this mode has few cases; it reaches time thresholds up to the longest pause it is given and
// none beyond (DESIGN.md section 7).
type AgedCase struct {
	Sinks   int   `json:"sinks"`   // 0: plain transport; 1..3: multi transport
	PauseMS []int `json:"pauseMS"` // pauses between consecutive messages
	Size    int   `json:"size"`
}

func genAged(t *rapid.T) AgedCase {
	c := AgedCase{Sinks: rapid.IntRange(0, 3).Draw(t, "sinks"), Size: rapid.SampledFrom([]int{1, 200, 1400, 9000, 64000}).Draw(t, "size")}
	long := 11000
	if pbt.Thorough() {
		long = rapid.SampledFrom([]int{11000, 31000, 61000}).Draw(t, "long")
	}
	switch rapid.IntRange(0, 2).Draw(t, "shape") {
	case 0:
		c.PauseMS = []int{long}
	case 1:
		c.PauseMS = []int{1100, long - 1100}
	default:
		c.PauseMS = []int{long / 2, long / 2, 600}
	}
	return c
}

func runAged(c AgedCase) (pbt.Outcome, error) {
	var errs pbt.Errs
	var out pbt.Outcome
	n := c.Sinks
	if n == 0 {
		n = 1
	}
	var sinks []*udpsink.Sink
	var addrs []string
	for i := 0; i < n; i++ {
		s, err := udpsink.New()
		if err != nil {
			return out, fmt.Errorf("harness: cannot open sink: %v", err)
		}
		defer s.Close()
		sinks, addrs = append(sinks, s), append(addrs, s.Addr)
	}
	var tr thrift.TTransport
	var err error
	if c.Sinks == 0 {
		tr, err = thriftudp.NewTUDPClientTransport(addrs[0], "")
	} else {
		tr, err = thriftudp.NewTMultiUDPClientTransport(addrs, "")
	}
	if err != nil {
		return out, fmt.Errorf("harness: %v", err)
	}
	defer tr.Close()
	send := func(k int) []byte {
		msg := payload(c.Size, byte(17*k+1))
		if _, err := tr.Write(msg); err != nil {
			errs.Addf("message %d: Write: %v", k, err)
		}
		if err := tr.Flush(); err != nil {
			errs.Addf("message %d (transport %v old): Flush: %v", k, time.Duration(0), err)
		}
		return msg
	}
	var want [][]byte
	want = append(want, send(0))
	total := 0
	for i, p := range c.PauseMS {
		time.Sleep(time.Duration(p) * time.Millisecond)
		total += p
		want = append(want, send(i+1))
	}
	for si, s := range sinks {
		if !s.WaitAll(len(want)) {
			errs.Addf("sink %d received %d datagrams, %d messages were flushed over %d ms", si, s.Count(), len(want), total)
			continue
		}
		got := s.Datagrams()
		for i := range want {
			if i < len(got) && !bytes.Equal(got[i], want[i]) {
				errs.Addf("sink %d datagram %d: %d bytes %s, want %d bytes %s", si, i, len(got[i]), head(got[i]), len(want[i]), head(want[i]))
			}
		}
		if len(got) != len(want) {
			errs.Addf("sink %d received %d datagrams, want %d", si, len(got), len(want))
		}
	}
	out.NonTrivial = total >= 10000
	out.Classes = append(out.Classes, fmt.Sprintf("idle-%ds", total/1000))
	return out, errs.Err()
}

func TestAged(t *testing.T) {
	pbt.Main(t, pbt.Prop[AgedCase]{
		ID: "C15", Name: "aged",
		Rule: "few real-time cases: a plain or multi-destination (1..3) transport sends a message of 1..64000 bytes, stays idle for 11 s in total (thorough tier: 11, 31 or 61 s; one pause, or split 1.1 s + rest, or two halves + 0.6 s) and sends again after every pause. Oracle: every Write and Flush returns nil and every sink receives exactly the flushed messages, byte-equal, one datagram each. Non-trivial: at least 10 s idle in total. Time thresholds beyond the longest pause are out of reach (DESIGN.md section 7).",
		Gen:  genAged, Run: runAged, HangAfter: 200 * time.Second,
	})
}

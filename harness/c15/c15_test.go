// C15: UDP transport: one flush = one exact datagram; a failed message never poisons.
package c15

import (
	"bytes"
	"errors"
	"fmt"
	"sync"
	"testing"
	"time"

	tally "github.com/uber-go/tally/v4"
	"github.com/uber-go/tally/v4/m3"
	m3thrift "github.com/uber-go/tally/v4/m3/thrift/v2"
	"github.com/uber-go/tally/v4/m3/thriftudp"
	"github.com/uber-go/tally/v4/thirdparty/github.com/apache/thrift/lib/go/thrift"
	"pgregory.net/rapid"

	"verifharness/internal/m3h"
	"verifharness/internal/pbt"
	"verifharness/internal/udpsink"
)

type Op struct {
	K string `json:"k"` // write writebyte writestring flush close abandon kill open
	N int    `json:"n,omitempty"`
	B byte   `json:"b,omitempty"` // fill byte seed
}

type Case struct {
	Sinks int  `json:"sinks"` // 0: plain TUDPTransport; 1..3: TMultiUDPTransport with that many destinations
	Ops   []Op `json:"ops"`
	// Pre: before the transport under test is created, ANOTHER transport of the same flavour (to a
	// destination of its own) is created, these many bytes are written to it in turn (a message being
	// assembled, possibly with a refused write in it) and it is closed without Flush. Transports are
	// independent objects: nothing of that may show up in the transport under test.
	Pre []int `json:"pre,omitempty"`
}

func sizeGen() *rapid.Generator[int] {
	return rapid.Custom(func(t *rapid.T) int {
		switch rapid.IntRange(0, 9).Draw(t, "szk") {
		case 0:
			return rapid.SampledFrom([]int{64999, 65000, 65001, 32500, 32501, 40000, 25000, 70000}).Draw(t, "big")
		case 1:
			return rapid.IntRange(60000, 66000).Draw(t, "near")
		case 2:
			return 0
		default:
			return rapid.IntRange(1, 300).Draw(t, "small")
		}
	})
}

func gen(t *rapid.T) Case {
	c := Case{Sinks: rapid.IntRange(0, 3).Draw(t, "sinks")}
	n := rapid.IntRange(1, 14).Draw(t, "nops")
	for i := 0; i < n; i++ {
		k := rapid.SampledFrom([]string{"write", "write", "write", "writestring", "writebyte", "flush", "flush", "flush", "close", "kill"}).Draw(t, "k")
		if (k == "close" || k == "kill") && rapid.IntRange(0, 2).Draw(t, "rare") != 0 {
			k = "flush"
		}
		if k == "kill" && c.Sinks >= 2 {
			k = "killsink" // one destination of the multi transport goes away (N: which one)
		}
		op := Op{K: k, B: rapid.Byte().Draw(t, "b")}
		if k == "killsink" {
			op.N = rapid.IntRange(0, c.Sinks-1).Draw(t, "which")
		}
		if k == "write" || k == "writestring" {
			op.N = sizeGen().Draw(t, "n")
		}
		c.Ops = append(c.Ops, op)
		if k == "close" && rapid.Bool().Draw(t, "openAfterClose") {
			// the writer of the message being assembled meets the closed transport and gives up; then
			// somebody calls Open (the thrift idiom "if !IsOpen() { Open() }") and goes on writing
			if rapid.Bool().Draw(t, "writeWhileClosed") {
				c.Ops = append(c.Ops, Op{K: "write", N: rapid.IntRange(1, 50).Draw(t, "wn"), B: 3}, Op{K: "abandon"})
			}
			c.Ops = append(c.Ops, Op{K: "open"})
		} else if rapid.IntRange(0, 11).Draw(t, "open?") == 0 {
			c.Ops = append(c.Ops, Op{K: "open"})
		}
		// a writer that got an error abandons the message (the generated thrift client does)
		if rapid.IntRange(0, 1).Draw(t, "abandonAfterError") == 0 {
			c.Ops = append(c.Ops, Op{K: "abandon"})
		}
	}
	c.Ops = append(c.Ops, Op{K: "write", N: 5, B: 1}, Op{K: "flush"})
	if rapid.IntRange(0, 2).Draw(t, "pre?") == 0 {
		c.Pre = rapid.SliceOfN(sizeGen(), 1, 3).Draw(t, "pre")
	}
	return c
}

func payload(n int, seed byte) []byte {
	b := make([]byte, n)
	for i := range b {
		b[i] = seed + byte(i*7) + byte(i>>8)
	}
	return b
}

type richTransport interface {
	thrift.TTransport
}

func kindOf(err error) int {
	var te thrift.TTransportException
	if errors.As(err, &te) { // also when wrapped
		return te.TypeId()
	}
	return -1
}

func run(c Case) (pbt.Outcome, error) {
	var errs pbt.Errs
	var out pbt.Outcome
	nsinks := c.Sinks
	if nsinks == 0 {
		nsinks = 1
	}
	var sinks []*udpsink.Sink
	var addrs []string
	for i := 0; i < nsinks; i++ {
		s, err := udpsink.New()
		if err != nil {
			return out, fmt.Errorf("harness: cannot open sink: %v", err)
		}
		defer s.Close()
		sinks = append(sinks, s)
		addrs = append(addrs, s.Addr)
	}
	if len(c.Pre) > 0 {
		ps, err := udpsink.New()
		if err != nil {
			return out, fmt.Errorf("harness: cannot open sink: %v", err)
		}
		defer ps.Close()
		var pt thrift.TTransport
		if c.Sinks == 0 {
			pt, err = thriftudp.NewTUDPClientTransport(ps.Addr, "")
		} else {
			pt, err = thriftudp.NewTMultiUDPClientTransport([]string{ps.Addr}, "")
		}
		if err != nil {
			return out, fmt.Errorf("harness: %v", err)
		}
		for i, n := range c.Pre {
			_, _ = pt.Write(payload(n, byte(0xA0+i)))
		}
		_ = pt.Close()
		out.Classes = append(out.Classes, "predecessor-closed-mid-message")
	}
	var tr thrift.TTransport
	var single *thriftudp.TUDPTransport
	if c.Sinks == 0 {
		t1, err := thriftudp.NewTUDPClientTransport(addrs[0], "")
		if err != nil {
			return out, fmt.Errorf("harness: %v", err)
		}
		tr, single = t1, t1
	} else {
		tm, err := thriftudp.NewTMultiUDPClientTransport(addrs, "")
		if err != nil {
			return out, fmt.Errorf("harness: %v", err)
		}
		tr = tm
	}
	defer tr.Close()

	var model []byte      // bytes accepted since the last Flush
	closed := false       // Close was called
	killed := false       // a socket was closed behind the transport's back
	lastWriteErr := false // the previous write was refused
	expected := 0         // datagrams expected at every sink so far
	var want [][]byte
	faultThenSuccess := false
	faultSeen := false
	staleClass := false
	// multi transport with a destination that went away: from then on sends to it fail (every other
	// one, ECONNREFUSED) and Flush reports that. The LIVE destinations are judged by a validity
	// predicate: the datagrams a live sink receives are, in order, messages that were flushed
	// (each complete, alone, byte-equal - never two messages glued together), and every message
	// whose Flush returned nil arrived.
	dead := map[int]bool{}
	type flushedMsg struct {
		data []byte
		ok   bool
	}
	var flushed []flushedMsg
	seq := 0

	checkArrived := func(what string) {
		for si, s := range sinks {
			if !s.WaitAll(expected) {
				errs.Addf("%s: sink %d has %d datagrams 30s after a successful Flush, want %d", what, si, s.Count(), expected)
				return
			}
			got := s.Datagrams()
			if len(got) != expected {
				errs.Addf("%s: sink %d has %d datagrams, want %d", what, si, len(got), expected)
				return
			}
			if !bytes.Equal(got[expected-1], want[expected-1]) {
				errs.Addf("%s: sink %d datagram %d has %d bytes %s, want %d bytes %s", what, si, expected-1, len(got[expected-1]), head(got[expected-1]), len(want[expected-1]), head(want[expected-1]))
			}
		}
	}

	for oi, op := range c.Ops {
		what := fmt.Sprintf("op %d %s(%d)", oi, op.K, op.N)
		switch op.K {
		case "write", "writestring", "writebyte":
			n := op.N
			if op.K == "writebyte" {
				n = 1
			}
			data := payload(n, op.B)
			var err error
			var wrote int
			switch op.K {
			case "write":
				wrote, err = tr.Write(data)
			case "writestring":
				if rt, ok := tr.(interface{ WriteString(string) (int, error) }); ok {
					wrote, err = rt.WriteString(string(data))
				} else {
					wrote, err = tr.Write(data)
				}
			case "writebyte":
				if rt, ok := tr.(interface{ WriteByte(byte) error }); ok {
					err = rt.WriteByte(data[0])
					wrote = 1
				} else {
					wrote, err = tr.Write(data)
				}
			}
			lastWriteErr = err != nil
			switch {
			case closed:
				if err == nil {
					errs.Addf("%s after Close succeeded", what)
				} else if kindOf(err) != thrift.NOT_OPEN {
					errs.Addf("%s after Close: error %v (kind %d), want a not-open error", what, err, kindOf(err))
				}
			case len(model)+n > thriftudp.MaxLength:
				faultSeen = true
				if err == nil {
					errs.Addf("%s with %d bytes buffered exceeds %d and was accepted", what, len(model), thriftudp.MaxLength)
					model = append(model, data...)
				}
				if c.Sinks > 1 && err != nil {
					// with several destinations a refusal by one leaves the others undefined only if they
					// disagree; all have the same buffer, so all refuse
				}
			default:
				if err != nil {
					errs.Addf("%s with %d bytes buffered refused: %v", what, len(model), err)
				} else {
					if wrote != n {
						errs.Addf("%s reported %d bytes written", what, wrote)
					}
					model = append(model, data...)
				}
			}
		case "abandon":
			if lastWriteErr && closed {
				// refused by the closed transport: the writer gives up on the message; should the transport
				// ever accept writes again (see "open"), a new message starts
				lastWriteErr = false
				model = nil
				continue
			}
			if !lastWriteErr || closed {
				continue
			}
			lastWriteErr = false
			if len(model) > 0 {
				// the writer gives up on the message: what is buffered must not leak into the next one
				staleClass = true
				model = nil
				if pbt.KnownOpen("C15", "stale-prefix-after-refused-write") {
					// everything up to here has been judged; from here on the history is inside the
					// recorded finding (the transport still holds the abandoned prefix)
					out.Excluded = "C15/stale-prefix-after-refused-write"
					return out, errs.Err()
				}
			}
		case "flush":
			lastWriteErr = false
			if len(model) == 0 && !closed && !killed {
				// an empty message may be sent as an empty datagram or not at all (unspecified); keep
				// every flushed message non-empty so that exactly one datagram is expected
				if _, err := tr.Write([]byte{op.B}); err == nil {
					model = append(model, op.B)
				}
			}
			if len(dead) > 0 && !closed {
				// a message whose Flush failed may or may not reach the live destinations: make every
				// message unique (sequence-number trailer) so that matching datagrams to messages is unambiguous
				seq++
				trailer := []byte{0xF5, byte(seq >> 8), byte(seq), 0x5F}
				if len(model)+len(trailer) <= thriftudp.MaxLength {
					if _, werr := tr.Write(trailer); werr == nil {
						model = append(model, trailer...)
					} else {
						errs.Addf("%s: a %d-byte write with %d bytes buffered was refused: %v", what, len(trailer), len(model), werr)
					}
				}
			}
			err := tr.Flush()
			switch {
			case closed:
				if err == nil {
					errs.Addf("%s after Close succeeded", what)
				} else if kindOf(err) != thrift.NOT_OPEN {
					errs.Addf("%s after Close: error %v (kind %d), want a not-open error", what, err, kindOf(err))
				}
			case len(dead) > 0:
				faultSeen = true
				if len(model) > 0 {
					flushed = append(flushed, flushedMsg{append([]byte(nil), model...), err == nil})
				}
				model = nil
				time.Sleep(150 * time.Microsecond) // let the ICMP error of a send to the dead destination come back
			case killed:
				faultSeen = true
				model = nil // whatever happened, the buffer must be empty now (checked by the capacity probe below)
			default:
				if err != nil {
					errs.Addf("%s of %d buffered bytes failed: %v", what, len(model), err)
					model = nil
					continue
				}
				if staleClass && pbt.KnownOpen("C15", "stale-prefix-after-refused-write") {
					out.Excluded = "C15/stale-prefix-after-refused-write"
					return out, nil
				}
				if len(model) > 0 {
					expected++
					want = append(want, append([]byte(nil), model...))
					checkArrived(what)
					if faultSeen {
						faultThenSuccess = true
					}
				}
				model = nil
			}
			// after any Flush, ok or failed, the buffer is empty: a maximal write must fit
			if !closed && !killed && (c.Sinks == 0 || len(dead) > 0) && oi%3 == 0 {
				probe := payload(thriftudp.MaxLength, 9)
				if _, err := tr.Write(probe); err != nil {
					errs.Addf("%s: after the flush a %d-byte write is refused (%v): the buffer was not emptied", what, thriftudp.MaxLength, err)
				} else {
					model = append(model, probe...)
				}
			}
		case "close":
			err := tr.Close()
			if err != nil && !killed {
				errs.Addf("%s returned %v", what, err)
			}
			if closed && err != nil {
				errs.Addf("second Close returned %v (Close must be idempotent)", err)
			}
			closed = true
			if tr.IsOpen() {
				errs.Addf("IsOpen() is true after Close")
			}
		case "open":
			// Open is documented as a no-op on these transports. On an open transport it returns nil and
			// changes nothing; on a closed one it may leave the transport closed (as this tree does) or,
			// if IsOpen() says so afterwards, have re-opened it - then it is judged like an open transport
			// from here on: the next flushed message is exactly what was accepted for it.
			err := tr.Open()
			if !closed {
				if err != nil {
					errs.Addf("%s on an open transport returned %v", what, err)
				}
				if !tr.IsOpen() {
					errs.Addf("IsOpen() is false after Open on an open transport")
				}
			} else if tr.IsOpen() {
				closed, killed = false, false
				out.Classes = append(out.Classes, "reopened")
			}
		case "killsink":
			if c.Sinks < 2 || closed || len(dead) == c.Sinks-1 || dead[op.N%c.Sinks] {
				continue // keep at least one live destination
			}
			dead[op.N%c.Sinks] = true
			sinks[op.N%c.Sinks].Close()
		case "kill":
			if single == nil || closed {
				continue
			}
			_ = single.Conn().Close()
			killed = true
		}
		if errs.Failed() {
			break
		}
	}
	// nothing beyond the expected datagrams
	time.Sleep(300 * time.Microsecond)
	if len(dead) > 0 && !errs.Failed() {
		for si, s := range sinks {
			if dead[si] {
				continue
			}
			// wait until every message whose Flush returned nil is there (messages whose Flush failed may
			// arrive as well, so counting datagrams is not enough), patiently: see udpsink.WaitAll
			allThere := func() bool {
				got := s.Datagrams()
				if len(got) < expected {
					return false
				}
				fi := 0
				for _, d := range got[expected:] {
					for fi < len(flushed) && !bytes.Equal(flushed[fi].data, d) {
						if flushed[fi].ok {
							return false
						}
						fi++
					}
					if fi == len(flushed) {
						return true // a foreign datagram: let the judgement below report it
					}
					fi++
				}
				for ; fi < len(flushed); fi++ {
					if flushed[fi].ok {
						return false
					}
				}
				return true
			}
			for deadline := time.Now().Add(30 * time.Second); !allThere() && time.Now().Before(deadline); {
				time.Sleep(200 * time.Microsecond)
			}
			time.Sleep(300 * time.Microsecond)
			got := s.Datagrams()
			if len(got) < expected {
				errs.Addf("live sink %d has %d datagrams, %d were sent before a sibling destination went away", si, len(got), expected)
				continue
			}
			fi := 0
			for gi, d := range got[expected:] {
				for fi < len(flushed) && !bytes.Equal(flushed[fi].data, d) {
					if flushed[fi].ok {
						errs.Addf("live sink %d: message %d (%d bytes %s), whose Flush returned nil, never arrived (or arrived out of order)", si, fi, len(flushed[fi].data), head(flushed[fi].data))
					}
					fi++
				}
				if fi == len(flushed) {
					errs.Addf("live sink %d: datagram %d after a sibling destination went away has %d bytes %s and is not one of the flushed messages, complete and alone (flushed sizes %v)", si, gi, len(d), head(d), sizes(flushed, func(m flushedMsg) int { return len(m.data) }))
					break
				}
				fi++
			}
			for ; fi < len(flushed) && !errs.Failed(); fi++ {
				if flushed[fi].ok {
					errs.Addf("live sink %d: message %d (%d bytes), whose Flush returned nil, never arrived", si, fi, len(flushed[fi].data))
				}
			}
		}
		if len(flushed) > 0 {
			faultThenSuccess = true
		}
	}
	for si, s := range sinks {
		if len(dead) > 0 {
			break
		}
		if got := s.Count(); got != expected && !errs.Failed() {
			errs.Addf("sink %d received %d datagrams in total, want %d", si, got, expected)
		}
	}
	if len(dead) > 0 {
		out.Classes = append(out.Classes, "multi-destination-went-away")
	}
	out.NonTrivial = faultThenSuccess
	out.Classes = append(out.Classes, fmt.Sprintf("sinks=%d", c.Sinks))
	if faultSeen {
		out.Classes = append(out.Classes, "fault")
	}
	return out, errs.Err()
}

func sizes[T any](xs []T, f func(T) int) []int {
	r := make([]int, len(xs))
	for i, x := range xs {
		r[i] = f(x)
	}
	return r
}

func head(b []byte) string {
	if len(b) > 12 {
		return fmt.Sprintf("[% x ...]", b[:12])
	}
	return fmt.Sprintf("[% x]", b)
}

func TestC15(t *testing.T) {
	pbt.Main(t, pbt.Prop[Case]{
		ID: "C15", Name: "transport",
		Rule: "rapid-generated histories (1..14 ops + a closing 5-byte message) on a TUDPTransport or a TMultiUDPTransport with 1..3 real loopback UDP sinks: Write/WriteString/WriteByte with sizes around the 65000-byte limit (64999, 65000, 65001, halves, 60000..66000) and small, Flush, Close, killing the socket behind the transport (single) or one destination of a multi transport going away (sends to it fail; the live destinations must keep receiving every later message complete, alone and byte-equal, and every message whose Flush returned nil), the writer abandoning a message after an error, and Open - a no-op on an open transport; on a closed one either it stays closed or, if IsOpen() then says true, it is judged as an open transport again (after a message was abandoned at the closed transport, the next message is exactly what was accepted for it). Reference model: buffer = concatenation of accepted writes since the last Flush; each successful Flush => exactly one byte-equal datagram at every sink; after any Flush a 65000-byte write fits again (buffer emptied whether or not the send succeeded); an over-long write is refused with an error and adds nothing; after Close every call fails with NOT_OPEN and Close is idempotent; no stray datagrams. A message abandoned after a refused write with bytes already buffered is the recorded stale-prefix finding: excluded only while listed open. Non-trivial: a fault (refused write, failed send) followed by a successful message. Distinct: FNV-64 of the case JSON.",
		Gen:  gen, Run: run, HangAfter: 120 * time.Second,
	})
}

// TestKnownFindings probes the witnesses of the findings listed open for C15.
func TestKnownFindings(t *testing.T) {
	if !pbt.KnownOpen("C15", "stale-prefix-after-refused-write") {
		return
	}
	s, err := udpsink.New()
	if err != nil {
		t.Skip("no sink")
	}
	defer s.Close()
	tr, err := thriftudp.NewTUDPClientTransport(s.Addr, "")
	if err != nil {
		t.Skip("no transport")
	}
	defer tr.Close()
	_, _ = tr.Write(payload(40000, 1))
	_, err = tr.Write(payload(40000, 2)) // refused
	_, _ = tr.Write(payload(5, 3))       // next message after the writer gave up
	_ = tr.Flush()
	if s.WaitCount(1, 2*time.Second) && err != nil {
		if d := s.Datagrams()[0]; len(d) != 5 {
			fmt.Printf("KNOWN-FINDING: property=C15 stale-prefix-after-refused-write: after a refused over-long write the bytes already buffered stay in the transport; the next message arrived as a %d-byte datagram (40000 stale bytes + the 5-byte message), and an M3 reporter that once built a batch larger than the transport buffer can never send again\n", len(d))
		}
	}
}

// ---------------------------------------------------------------- reporter level: send faults, then more traffic

type RepCase struct {
	Binary bool  `json:"binary"`
	Up1    []int `json:"up1"`  // metrics per flush group while the destination is up
	Down   []int `json:"down"` // flush groups reported while the destination is gone (send errors)
	Up2    []int `json:"up2"`  // flush groups after the destination came back
	Hist   bool  `json:"hist"` // use histogram bucket metrics (borrowed tag slices) instead of counters
}

func genRep(t *rapid.T) RepCase {
	g := func(label string, min, max int) []int {
		return rapid.SliceOfN(rapid.IntRange(1, 6), min, max).Draw(t, label)
	}
	return RepCase{Binary: rapid.Bool().Draw(t, "binary"), Up1: g("up1", 0, 3), Down: g("down", 2, 5), Up2: g("up2", 1, 4), Hist: rapid.Bool().Draw(t, "hist")}
}

func runRep(c RepCase) (pbt.Outcome, error) {
	var errs pbt.Errs
	var out pbt.Outcome
	sink, err := udpsink.New()
	if err != nil {
		return out, fmt.Errorf("harness: %v", err)
	}
	port := sink.Port()
	var mu sync.Mutex
	batches := 0
	m3.VerifSetHooks(&m3.VerifHooks{NoteBatch: func(mets []m3thrift.Metric, ct []m3thrift.MetricTag, f, o int32) {
		mu.Lock()
		batches++
		mu.Unlock()
	}})
	defer m3.VerifSetHooks(nil)
	nb := func() int { mu.Lock(); defer mu.Unlock(); return batches }
	proto := m3.Compact
	if c.Binary {
		proto = m3.Binary
	}
	r, err := m3.NewReporter(m3.Options{HostPorts: []string{sink.Addr}, Service: "svc", Env: "test", Protocol: proto, MaxQueueSize: 64})
	if err != nil {
		sink.Close()
		return out, fmt.Errorf("harness: NewReporter: %v", err)
	}
	defer r.Close()
	cnt := r.AllocateCounter("c", map[string]string{"a": "b"})
	hb := r.AllocateHistogram("h", map[string]string{"x": "y"}, tally.ValueBuckets{1, 2}).ValueBucket(1, 2)
	group := map[int64]int{} // value -> flush group
	groupPhase := map[int]string{}
	next := int64(1)
	gid := 0
	emit := func(n int, phase string) {
		gid++
		groupPhase[gid] = phase
		for i := 0; i < n; i++ {
			group[next] = gid
			if c.Hist {
				hb.ReportSamples(next)
			} else {
				cnt.ReportCount(next)
			}
			next++
		}
		before := nb()
		r.Flush()
		// wait until the batching goroutine has taken the group (a flush marker always ends a batch)
		deadline := time.Now().Add(5 * time.Second)
		for nb() == before && time.Now().Before(deadline) {
			time.Sleep(50 * time.Microsecond)
		}
	}
	for _, n := range c.Up1 {
		emit(n, "up1")
	}
	if !sink.WaitAll(nb()) {
		errs.Addf("destination up: %d batches emitted, %d datagrams arrived", nb(), sink.Count())
	}
	first := sink.Datagrams()
	sink.Close() // the destination goes away: sends now fail with ECONNREFUSED (every other one)
	for _, n := range c.Down {
		emit(n, "down")
		time.Sleep(200 * time.Microsecond) // let the ICMP error come back
	}
	time.Sleep(500 * time.Microsecond) // the last down-phase send has left the reporter
	sink2, err := udpsink.NewAt(port)
	if err != nil {
		return out, fmt.Errorf("harness: cannot re-open port %d: %v", port, err)
	}
	defer sink2.Close()
	base := nb()
	for _, n := range c.Up2 {
		emit(n, "up2")
	}
	want2 := nb() - base
	// one send may be swallowed by a socket error still pending from the outage: that one is not judged
	sink2.WaitCount(want2-1, 5*time.Second)
	sink2.WaitCount(want2, 2*time.Millisecond)
	seen := map[int64]int{}
	check := func(grams [][]byte, label string) {
		for gi, d := range grams {
			_, batch, err := m3h.Decode(c.Binary, d)
			if err != nil {
				errs.Addf("%s datagram %d does not decode as one message: %v", label, gi, err)
				continue
			}
			groups := map[int]bool{}
			for _, m := range batch.Metrics {
				if m3h.IsInternal(m.Name) {
					continue
				}
				v := m.Value.Count
				g, ok := group[v]
				if !ok {
					errs.Addf("%s datagram %d carries a value %d that was never reported (corrupted metric %v)", label, gi, v, m)
					continue
				}
				seen[v]++
				groups[g] = true
				wantTags := 1
				if c.Hist {
					wantTags = 3
				}
				if len(m.Tags) != wantTags {
					errs.Addf("%s datagram %d: metric %q value %d has tags %v", label, gi, m.Name, v, m.Tags)
				}
			}
			if len(groups) > 1 {
				errs.Addf("%s datagram %d mixes metrics of %d different flush groups %v: a message that failed to send leaked into a later one", label, gi, len(groups), groups)
			}
		}
	}
	check(first, "first-phase")
	check(sink2.Datagrams(), "after-recovery")
	for v, n := range seen {
		if n > 1 {
			errs.Addf("value %d (flush group %d, phase %s) was delivered %d times", v, group[v], groupPhase[group[v]], n)
		}
	}
	for v, g := range group {
		if groupPhase[g] == "up1" && seen[v] != 1 {
			errs.Addf("value %d reported while the destination was up was delivered %d times", v, seen[v])
		}
	}
	// the groups after recovery: each arrives completely or - at most one of them, swallowed by a
	// socket error still pending from the outage - not at all
	have := map[int]int{}
	size := map[int]int{}
	for v, g := range group {
		if groupPhase[g] == "up2" {
			size[g]++
			if seen[v] > 0 {
				have[g]++
			}
		}
	}
	lost := 0
	for g, n := range size {
		switch {
		case have[g] == 0:
			lost++
		case have[g] != n:
			errs.Addf("flush group %d reported after the destination came back arrived partially (%d of %d values)", g, have[g], n)
		}
	}
	if lost > 1 {
		errs.Addf("%d of %d flush groups reported after the destination came back never arrived (at most one may be swallowed by a pending socket error): the reporter stopped emitting", lost, len(size))
	}
	out.NonTrivial = len(c.Up2) >= 2
	if c.Hist {
		out.Classes = append(out.Classes, "histogram-buckets")
	}
	return out, errs.Err()
}

func TestReporter(t *testing.T) {
	pbt.Main(t, pbt.Prop[RepCase]{
		ID: "C15", Name: "reporter",
		Rule: "reporter-level fault sequences: an M3 reporter (Compact/Binary) sends 0..3 flush groups of 1..6 uniquely valued metrics (counters or histogram buckets) to a loopback destination, the destination then disappears (its socket is closed, so sends fail with ECONNREFUSED) while 2..5 more groups are reported, then the destination comes back on the same port and 1..4 more groups are reported. Oracle: everything sent while the destination was up arrives exactly once; no value is ever delivered twice; no datagram mixes metrics of different flush groups (a message that failed to send must not leak into a later one); every datagram decodes and carries intact tags; the reporter keeps emitting after the faults (all later groups arrive, except that the first may be swallowed by a pending socket error). Non-trivial: >=2 groups after recovery.",
		Gen:  genRep, Run: runRep, HangAfter: 120 * time.Second,
	})
}

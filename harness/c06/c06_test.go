// C06: everything handed to a reporter is sanitized; valid input passes unchanged.
package c06

import (
	"fmt"
	"sync"
	"testing"
	"time"
	"unicode/utf8"

	tally "github.com/uber-go/tally/v4"
	"pgregory.net/rapid"

	"verifharness/internal/model"
	"verifharness/internal/pbt"
	"verifharness/internal/rec"
	"verifharness/internal/san"
)

// ------------------------------------------------------------------ level 1

type FnCase struct {
	O     san.Options `json:"o"`
	Class string      `json:"class"` // name key value
	In    pbt.S       `json:"in"`
}

func genFn(t *rapid.T) FnCase {
	c := FnCase{O: san.GenOptions().Draw(t, "opts"), Class: rapid.SampledFrom([]string{"name", "key", "value"}).Draw(t, "class")}
	c.In = san.GenInput(c.cls(), c.O.Repl).Draw(t, "in")
	return c
}

func (c FnCase) cls() san.Class {
	switch c.Class {
	case "name":
		return c.O.Name
	case "key":
		return c.O.Key
	}
	return c.O.Value
}

func checkSanitized(errs *pbt.Errs, what, in, got string, cls model.San, repl rune) {
	want := cls.Sanitize(in, repl)
	if got != want {
		errs.Addf("%s: sanitize(%q) = %q, reference says %q", what, in, got, want)
	}
	// direct statement of the property on the output
	for i := 0; i < len(got); {
		r, w := utf8.DecodeRuneInString(got[i:])
		if r == utf8.RuneError && w == 1 {
			if !(repl == utf8.RuneError) {
				errs.Addf("%s: output %q of sanitize(%q) contains an invalid byte at %d", what, got, in, i)
				break
			}
		} else if !cls.Allowed(r) && r != repl && !(!utf8.ValidRune(repl) && r == utf8.RuneError) {
			errs.Addf("%s: output %q of sanitize(%q) contains disallowed rune %q", what, got, in, r)
			break
		}
		i += w
	}
	if utf8.RuneCountInString(got) != utf8.RuneCountInString(in) {
		errs.Addf("%s: rune count changed: %q (%d) -> %q (%d)", what, in, utf8.RuneCountInString(in), got, utf8.RuneCountInString(got))
	}
}

func runFn(c FnCase) (pbt.Outcome, error) {
	var errs pbt.Errs
	var out pbt.Outcome
	s := tally.NewSanitizer(c.O.Tally())
	var f func(string) string
	switch c.Class {
	case "name":
		f = s.Name
	case "key":
		f = s.Key
	default:
		f = s.Value
	}
	cls := c.cls().Model()
	repl := rune(c.O.Repl)
	in := string(c.In)
	got := f(in)
	checkSanitized(&errs, c.Class, in, got, cls, repl)
	if again := f(in); again != got {
		errs.Addf("not deterministic: %q then %q", got, again)
	}
	if twice := f(got); twice != got {
		errs.Addf("not idempotent: f(%q)=%q, f(f(x))=%q", in, got, twice)
	}
	valid := utf8.ValidString(in)
	if valid {
		all := true
		for _, r := range in {
			if !cls.Allowed(r) {
				all = false
			}
		}
		if all && got != in {
			errs.Addf("valid input %q was changed to %q", in, got)
		}
	}
	// no-op sanitizer is the identity
	if id := tally.NewNoOpSanitizer(); id.Name(in) != in || id.Key(in) != in || id.Value(in) != in {
		errs.Addf("no-op sanitizer changed %q", in)
	}
	// non-trivial: a rune at a range end point, or invalid UTF-8, or a multi-byte rune next to the first invalid position
	for _, r := range in {
		for _, rg := range c.cls().Ranges {
			if int32(r) == rg[0] || int32(r) == rg[1] || int32(r) == rg[0]-1 || int32(r) == rg[1]+1 {
				out.NonTrivial = true
			}
		}
	}
	if !valid {
		out.NonTrivial = true
		out.Classes = append(out.Classes, "invalid-utf8")
	}
	if got != in {
		out.Classes = append(out.Classes, "changed")
	}
	if len(in) > 100 {
		out.Classes = append(out.Classes, "long")
	}
	if cls.Allowed(utf8.RuneError) {
		out.Classes = append(out.Classes, "fffd-allowed")
	}
	return out, errs.Err()
}

func TestFn(t *testing.T) {
	pbt.Main(t, pbt.Prop[FnCase]{
		ID: "C06", Name: "fn",
		Rule: "rapid-generated SanitizeOptions (0..4 ranges per class: alphanumeric, single-rune, reversed/empty, overlapping, multi-byte, ranges covering U+FFFD; 0..6 extra characters; replacement incl. multi-byte and not-allowed runes) and input strings (0..4096 bytes built from range end points +-1, extra characters, multi-byte runes and invalid UTF-8 sequences); NewSanitizer(o).Name/Key/Value compared with an independent reference sanitizer; output runes in allowed+replacement, rune count preserved, idempotent, deterministic, valid input unchanged, no-op sanitizer identity. Non-trivial: input has a rune at/next to a range end point or invalid UTF-8. Distinct: FNV-64 of the case JSON.",
		Gen:  genFn, Run: runFn, HangAfter: 20 * time.Second,
	})
}

// ------------------------------------------------------------------ level 2

type Step struct {
	Sub  *pbt.S `json:"sub,omitempty"`
	Tags pbt.M  `json:"tags,omitempty"`
}

type ScopeCase struct {
	O        san.Options `json:"o"`
	Cached   bool        `json:"cached"`
	Prefix   pbt.S       `json:"prefix"`
	Sep      pbt.S       `json:"sep"`
	RootTags pbt.M       `json:"rootTags,omitempty"`
	CardTags pbt.M       `json:"cardTags,omitempty"`
	Steps    []Step      `json:"steps"`
	Metric   pbt.S       `json:"metric"`
}

func genScope(t *rapid.T) ScopeCase {
	c := ScopeCase{O: san.GenOptions().Draw(t, "opts"), Cached: rapid.Bool().Draw(t, "cached")}
	nm := san.GenInput(c.O.Name, c.O.Repl)
	ky := san.GenInput(c.O.Key, c.O.Repl)
	vl := san.GenInput(c.O.Value, c.O.Repl)
	short := func(g *rapid.Generator[pbt.S]) *rapid.Generator[pbt.S] {
		return rapid.Custom(func(t *rapid.T) pbt.S {
			s := g.Draw(t, "s")
			if len(s) > 24 {
				s = s[:24]
			}
			return s
		})
	}
	c.Prefix = short(nm).Draw(t, "prefix")
	c.Sep = short(nm).Draw(t, "sep")
	c.RootTags = pbt.MapOf(short(ky), short(vl), 2).Draw(t, "rootTags")
	c.CardTags = pbt.MapOf(short(ky), short(vl), 2).Draw(t, "cardTags")
	n := rapid.IntRange(0, 4).Draw(t, "nsteps")
	for i := 0; i < n; i++ {
		if rapid.Bool().Draw(t, "isSub") {
			s := short(nm).Draw(t, "sub")
			c.Steps = append(c.Steps, Step{Sub: &s})
		} else {
			m := pbt.MapOf(short(ky), short(vl), 3).Draw(t, "tags")
			if m == nil {
				m = pbt.M{}
			}
			c.Steps = append(c.Steps, Step{Tags: m})
		}
	}
	c.Metric = short(nm).Draw(t, "metric")
	return c
}

func runScope(c ScopeCase) (pbt.Outcome, error) {
	var errs pbt.Errs
	var out pbt.Outcome
	so := c.O.Tally()
	opts := tally.ScopeOptions{Prefix: string(c.Prefix), Separator: string(c.Sep), Tags: c.RootTags.Std(), SanitizeOptions: &so, CardinalityMetricsTags: c.CardTags.Std()}
	var log *rec.Log
	if c.Cached {
		r := rec.NewCached()
		log = r.L
		opts.CachedReporter = r
	} else {
		r := rec.NewStats()
		log = r.L
		opts.Reporter = r
	}
	root, _ := tally.NewRootScope(opts, 0)
	s := root
	for _, st := range c.Steps {
		if st.Sub != nil {
			s = s.SubScope(string(*st.Sub))
		} else {
			tg := st.Tags.Std()
			s = s.Tagged(tg)
			pbt.Spoil(tg)
		}
	}
	m := string(c.Metric)
	s.Counter(m).Inc(1)
	s.Gauge(m).Update(1)
	s.Timer(m).Record(time.Second)
	s.Histogram(m, tally.ValueBuckets{1}).RecordValue(0)
	tally.VerifReportOnce(root)
	mo := c.O.Model()
	n := 0
	for _, e := range log.Events() {
		switch e.Kind {
		case rec.KFlush, rec.KMark, rec.KClose, rec.KCaps:
			continue
		}
		n++
		checkOut(&errs, "metric name", e.Name, mo.Name, mo.Repl)
		for k, v := range e.Tags {
			checkOut(&errs, "tag key of "+e.Name, k, mo.Key, mo.Repl)
			checkOut(&errs, "tag value of "+e.Name+"["+k+"]", v, mo.Value, mo.Repl)
		}
	}
	if n < 8 {
		errs.Addf("only %d reporter events observed, expected the 4 metrics and 4 cardinality gauges", n)
	}
	out.NonTrivial = len(c.Steps) >= 1 && !allValid(c)
	if c.Cached {
		out.Classes = append(out.Classes, "cached")
	}
	return out, errs.Err()
}

func allValid(c ScopeCase) bool {
	mo := c.O.Model()
	ok := func(s pbt.S, cls model.San) bool { return cls.Sanitize(string(s), mo.Repl) == string(s) }
	v := ok(c.Prefix, mo.Name) && ok(c.Sep, mo.Name) && ok(c.Metric, mo.Name)
	for _, st := range c.Steps {
		if st.Sub != nil {
			v = v && ok(*st.Sub, mo.Name)
		}
		for k, x := range st.Tags {
			v = v && ok(k, mo.Key) && ok(x, mo.Value)
		}
	}
	return v
}

func checkOut(errs *pbt.Errs, what, s string, cls model.San, repl rune) {
	for i := 0; i < len(s); {
		r, w := utf8.DecodeRuneInString(s[i:])
		if r == utf8.RuneError && w == 1 {
			errs.Addf("%s %q reached the reporter with an invalid byte", what, s)
			return
		}
		if !cls.Allowed(r) && r != repl {
			errs.Addf("%s %q reached the reporter with disallowed rune %q", what, s, r)
			return
		}
		i += w
	}
}

func TestScope(t *testing.T) {
	pbt.Main(t, pbt.Prop[ScopeCase]{
		ID: "C06", Name: "scope",
		Rule: "rapid-generated root scopes with generated SanitizeOptions, prefix, separator, root tags, cardinality-metric tags and a derivation of 0..4 SubScope/Tagged steps, one metric of every kind, plain or cached reporter, one report pass; EVERY string reaching the reporter (names, tag keys, tag values, the library's own cardinality metrics included) must consist of allowed runes or the replacement. Non-trivial: >=1 derivation step and at least one input that the reference sanitizer changes. Distinct: FNV-64 of the case JSON.",
		Gen:  genScope, Run: runScope, HangAfter: 20 * time.Second,
	})
}

// ------------------------------------------------------------------ level 3 (free-running, -race)

type PoolCase struct {
	O      san.Options `json:"o"`
	Inputs []pbt.S     `json:"inputs"`
	// O2 (optional): a SECOND sanitizer with other options is used by the same goroutines in
	// rotation, and names, keys and values are sanitized in turn (buffers are recycled process-wide)
	O2 *san.Options `json:"o2,omitempty"`
}

func genPool(t *rapid.T) PoolCase {
	c := PoolCase{O: san.GenOptions().Draw(t, "opts")}
	g := san.GenInput(c.O.Name, c.O.Repl)
	c.Inputs = rapid.SliceOfN(g, 4, 16).Draw(t, "inputs")
	if rapid.Bool().Draw(t, "second") {
		o2 := san.GenOptions().Draw(t, "opts2")
		c.O2 = &o2
		c.Inputs = append(c.Inputs, rapid.SliceOfN(san.GenInput(o2.Value, o2.Repl), 2, 8).Draw(t, "inputs2")...)
	}
	return c
}

func runPool(c PoolCase) (pbt.Outcome, error) {
	var errs pbt.Errs
	var mu sync.Mutex
	sans := []tally.Sanitizer{tally.NewSanitizer(c.O.Tally())}
	mos := []*model.Opts{c.O.Model()}
	if c.O2 != nil {
		sans = append(sans, tally.NewSanitizer(c.O2.Tally()))
		mos = append(mos, c.O2.Model())
	}
	var wg sync.WaitGroup
	changed := 0
	for g := 0; g < 16; g++ {
		wg.Add(1)
		go func(g int) {
			defer wg.Done()
			for round := 0; round < 20; round++ {
				in := string(c.Inputs[(g+round)%len(c.Inputs)])
				s, mo := sans[(g+round)%len(sans)], mos[(g+round)%len(sans)]
				var got, want string
				switch kind := (g/2 + round) % 3; {
				case c.O2 == nil || kind == 0:
					got, want = s.Name(in), mo.Name.Sanitize(in, mo.Repl)
				case kind == 1:
					got, want = s.Key(in), mo.Key.Sanitize(in, mo.Repl)
				default:
					got, want = s.Value(in), mo.Value.Sanitize(in, mo.Repl)
				}
				if got != want {
					mu.Lock()
					errs.Addf("concurrent sanitize(%q) = %q, sequential reference %q", in, got, want)
					mu.Unlock()
				}
				if got != in {
					mu.Lock()
					changed++
					mu.Unlock()
				}
			}
		}(g)
	}
	wg.Wait()
	return pbt.Outcome{NonTrivial: changed > 0, Classes: []string{fmt.Sprintf("changed>0=%v", changed > 0)}}, errs.Err()
}

func TestPool(t *testing.T) {
	pbt.Main(t, pbt.Prop[PoolCase]{
		ID: "C06", Name: "pool",
		Rule: "free-running mode (real parallelism, -race): 16 goroutines x 20 rounds sanitise 4..16 generated strings through one sanitizer - or, half the time, names, keys and values in rotation through two sanitizers with different options (buffers are recycled process-wide); each result compared with the sequential reference; race detector on. Non-trivial: at least one input needed a buffer (was changed).",
		Gen:  genPool, Run: runPool, Retries: 30, HangAfter: 60 * time.Second,
	})
}

func FuzzFn(f *testing.F) {
	pbt.Fuzz(f, pbt.Prop[FnCase]{ID: "C06", Name: "fuzz-fn", Rule: "native coverage-guided fuzzing (go test -fuzz) of sanitizer options x input strings against the reference sanitizer: the fuzzer's bytes are rapid's random stream", Gen: genFn, Run: runFn})
}

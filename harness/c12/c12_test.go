// C12: no M3 datagram exceeds the configured maximum packet size.
package c12

import (
	"bytes"
	"fmt"
	"math"
	"os"
	"strings"
	"sync"
	"sync/atomic"
	"testing"
	"time"

	tally "github.com/uber-go/tally/v4"
	"github.com/uber-go/tally/v4/m3"
	m3thrift "github.com/uber-go/tally/v4/m3/thrift/v2"
	"pgregory.net/rapid"

	"verifharness/internal/m3h"
	"verifharness/internal/pbt"
	"verifharness/internal/udpsink"
)

type MSpec struct {
	Kind    string `json:"kind"` // counter gauge timer vhist dhist
	NameLen int    `json:"nameLen"`
	Tags    pbt.M  `json:"tags,omitempty"`
	NBounds int    `json:"nbounds,omitempty"` // histograms: number of bounds
	// Twin > 0: this metric has the SAME name and tags as metric Twin-1 (allocated earlier) but another
	// kind - identities that differ only in kind must still be sized (and delivered) on their own
	Twin int `json:"twin,omitempty"`
}

type SOp struct {
	M     int   `json:"m"`
	I     int64 `json:"i,omitempty"`
	F     pbt.F `json:"f,omitempty"`
	B     int   `json:"b,omitempty"` // bucket index for histograms
	Flush bool  `json:"flush,omitempty"`
	Rep   int   `json:"rep,omitempty"` // repeat this op Rep more times (bursts)
}

type Case struct {
	Binary   bool   `json:"binary"`
	SizeMode string `json:"sizeMode"` // min default big
	Slack    int    `json:"slack"`
	Big      int    `json:"big,omitempty"`
	Common   pbt.M  `json:"common,omitempty"`
	// IncludeHost: 1: Options.IncludeHost without a host among the common tags (the reporter adds the
	// machine's host name as one more common tag); 2: with a common tag host=custom-host (kept);
	// 3: with a common tag host="" (replaced by the host name). The tag is part of every datagram.
	IncludeHost int `json:"includeHost,omitempty"`
	// Precision: Options.HistogramBucketTagPrecision (0: the default 6) - the bucket-range tag values
	// get longer; Internal: Options.InternalTags - the reporter's own metrics get bigger
	Precision uint  `json:"precision,omitempty"`
	Internal  pbt.M `json:"internal,omitempty"`
	// Dup: the destination is listed twice in HostPorts: it receives every batch twice - two datagrams
	// of legal size, not one of double size
	Dup      bool    `json:"dup,omitempty"`
	Queue    int     `json:"queue"`
	PreAge   int     `json:"preAge,omitempty"`
	Metrics  []MSpec `json:"metrics"`
	Stream   []SOp   `json:"stream"`
	Strategy string  `json:"strategy"`
	// Pred: before the reporter under test is built, ANOTHER reporter exists in the process (its own
	// destination): 1 same wire protocol, closed again; 2 the OTHER wire protocol, closed again; 3 the
	// other protocol, still open during the whole case. Reporters are independent objects: what one
	// measures and sends must not depend on the other.
	Pred int `json:"pred,omitempty"`
	// ManySets: after the metrics of the case were allocated, that many further counters with tag
	// sets of their own are allocated on the same reporter (never reported): high tag cardinality
	// must not touch what the earlier handles send
	ManySets int `json:"manySets,omitempty"`
}

func genTags(t *rapid.T, max int) pbt.M {
	n := rapid.IntRange(0, max).Draw(t, "ntags")
	if rapid.IntRange(0, 5).Draw(t, "manytags?") == 0 {
		// more tags than any preallocated tag slice of the reporter holds (its pooled slices have room
		// for ten): the list has to grow, and what was measured must still be what is sent
		n = rapid.IntRange(9, 24).Draw(t, "manytags")
	}
	if n == 0 {
		return nil
	}
	m := pbt.M{}
	for i := 0; i < n; i++ {
		k := strings.Repeat("k", rapid.IntRange(1, 12).Draw(t, "klen")) + fmt.Sprint(i)
		v := strings.Repeat("v", rapid.IntRange(0, 40).Draw(t, "vlen"))
		m[pbt.S(k)] = pbt.S(v)
	}
	return m
}

func gen(t *rapid.T) Case {
	c := Case{Binary: rapid.Bool().Draw(t, "binary")}
	c.SizeMode = rapid.SampledFrom([]string{"min", "min", "default", "default", "big"}).Draw(t, "sizeMode")
	c.Slack = rapid.SampledFrom([]int{0, 0, 1, 2, 7, 40, 300}).Draw(t, "slack")
	c.Big = rapid.IntRange(2000, 65000).Draw(t, "big")
	c.Common = genTags(t, 8)
	if rapid.IntRange(0, 3).Draw(t, "includeHost?") == 0 {
		c.IncludeHost = rapid.IntRange(1, 3).Draw(t, "includeHost")
	}
	c.Dup = rapid.IntRange(0, 5).Draw(t, "dup") == 0
	if rapid.IntRange(0, 3).Draw(t, "precision?") == 0 {
		c.Precision = uint(rapid.SampledFrom([]int{1, 2, 12, 40}).Draw(t, "precision"))
	}
	if rapid.IntRange(0, 3).Draw(t, "internal?") == 0 {
		c.Internal = pbt.M{}
		for i, n := 0, rapid.IntRange(1, 3).Draw(t, "ninternal"); i < n; i++ {
			c.Internal[pbt.S(rapid.SampledFrom([]string{"team", "host", "instance", "version", "dc"}).Draw(t, "ik"))] = pbt.S(strings.Repeat("i", rapid.IntRange(0, 200).Draw(t, "ivlen")))
		}
	}
	c.Queue = rapid.SampledFrom([]int{1, 2, 16, 4096}).Draw(t, "queue")
	c.Pred = rapid.SampledFrom([]int{0, 0, 0, 1, 2, 2, 3}).Draw(t, "pred")
	if rapid.IntRange(0, 9).Draw(t, "manySets?") == 0 {
		c.ManySets = rapid.SampledFrom([]int{300, 1100, 4200, 4200, 9000}).Draw(t, "manySets")
	}
	switch rapid.IntRange(0, 49).Draw(t, "preAge") {
	case 0:
		c.PreAge = 17000
	case 1, 2, 3, 4:
		c.PreAge = 130
	}
	c.Strategy = rapid.SampledFrom([]string{"mixed", "burst", "burst"}).Draw(t, "strategy")
	nm := rapid.IntRange(1, 5).Draw(t, "nmetrics")
	if c.Strategy == "burst" {
		nm = 1
	}
	for i := 0; i < nm; i++ {
		ms := MSpec{Kind: rapid.SampledFrom([]string{"counter", "gauge", "timer", "vhist", "dhist"}).Draw(t, "kind")}
		ms.NameLen = rapid.OneOf(rapid.IntRange(1, 40), rapid.IntRange(1, 600)).Draw(t, "nameLen")
		ms.Tags = genTags(t, 8)
		if ms.Kind == "vhist" || ms.Kind == "dhist" {
			ms.NBounds = rapid.IntRange(0, 12).Draw(t, "nbounds")
		}
		if len(c.Metrics) > 0 && ms.Kind != "vhist" && ms.Kind != "dhist" && rapid.IntRange(0, 2).Draw(t, "twin?") == 0 {
			tw := rapid.IntRange(0, len(c.Metrics)-1).Draw(t, "twin")
			if k := c.Metrics[tw].Kind; k != ms.Kind && k != "vhist" && k != "dhist" && c.Metrics[tw].Twin == 0 {
				ms.Twin, ms.NameLen, ms.Tags = tw+1, c.Metrics[tw].NameLen, c.Metrics[tw].Tags
			}
		}
		c.Metrics = append(c.Metrics, ms)
	}
	if c.Strategy == "burst" && (c.Metrics[0].Kind == "counter" || c.Metrics[0].Kind == "timer") && rapid.Bool().Draw(t, "gaugeTwinFirst") {
		// a gauge with the same name and tags is allocated BEFORE the metric the burst is made of
		main := c.Metrics[0]
		main.Twin = 1
		c.Metrics = []MSpec{{Kind: "gauge", NameLen: main.NameLen, Tags: main.Tags}, main}
	}
	val := func(op *SOp) {
		switch rapid.IntRange(0, 3).Draw(t, "vk") {
		case 0:
			op.I, op.F = math.MaxInt64, pbt.FOf(math.MaxFloat64)
		case 1:
			op.I, op.F = math.MinInt64, pbt.FOf(-math.MaxFloat64)
		case 2:
			op.I, op.F = int64(rapid.IntRange(0, 100).Draw(t, "small")), pbt.FOf(1.5)
		default:
			op.I, op.F = pbt.AnyInt64().Draw(t, "i"), pbt.AnyFloat().Draw(t, "f")
		}
	}
	if c.Strategy == "burst" {
		op := SOp{M: len(c.Metrics) - 1, B: rapid.IntRange(0, 12).Draw(t, "b")}
		val(&op)
		op.Rep = -1 // sized in run(): until at least three packets are full
		c.Stream = append(c.Stream, op)
	} else {
		n := rapid.IntRange(1, 40).Draw(t, "nops")
		for i := 0; i < n; i++ {
			op := SOp{M: rapid.IntRange(0, len(c.Metrics)-1).Draw(t, "m"), B: rapid.IntRange(0, 12).Draw(t, "b")}
			val(&op)
			op.Flush = rapid.IntRange(0, 7).Draw(t, "flush") == 0
			op.Rep = rapid.SampledFrom([]int{0, 0, 0, 1, 5, 30}).Draw(t, "rep")
			c.Stream = append(c.Stream, op)
		}
	}
	return c
}

// nameIndex is the index whose name a metric carries (its twin's, if it has one).
func nameIndex(ms []MSpec, i int) int {
	if ms[i].Twin > 0 && ms[i].Twin-1 < i {
		return ms[i].Twin - 1
	}
	return i
}

func metricName(i, n int) string {
	s := fmt.Sprintf("m%d_", i)
	if n > len(s) {
		s += strings.Repeat("n", n-len(s))
	}
	return s
}

type chargeRec struct {
	charged int32
	real    int
}

func run(c Case) (pbt.Outcome, error) {
	var errs pbt.Errs
	var out pbt.Outcome
	sink, err := udpsink.New()
	if err != nil {
		return out, fmt.Errorf("harness: %v", err)
	}
	defer sink.Close()

	// ---- lower bound for MaxPacketSizeBytes: the largest single metric must fit on its own
	common := []m3thrift.MetricTag{{Name: "service", Value: "svc"}, {Name: "env", Value: "test"}}
	for k, v := range c.Common {
		common = append(common, m3thrift.MetricTag{Name: string(k), Value: string(v)})
	}
	commonOpt := c.Common.Std()
	if c.IncludeHost > 0 {
		hn, herr := os.Hostname()
		if herr != nil {
			return out, fmt.Errorf("harness: %v", herr)
		}
		if commonOpt == nil {
			commonOpt = map[string]string{}
		}
		switch c.IncludeHost {
		case 2:
			commonOpt["host"] = "custom-host"
			common = append(common, m3thrift.MetricTag{Name: "host", Value: "custom-host"})
		case 3:
			commonOpt["host"] = ""
			common = append(common, m3thrift.MetricTag{Name: "host", Value: hn})
		default:
			common = append(common, m3thrift.MetricTag{Name: "host", Value: hn})
		}
		out.Classes = append(out.Classes, "include-host")
	}
	mtags := func(m pbt.M) []m3thrift.MetricTag {
		var r []m3thrift.MetricTag
		for k, v := range m {
			r = append(r, m3thrift.MetricTag{Name: string(k), Value: string(v)})
		}
		return r
	}
	worst := func(name string, tags []m3thrift.MetricTag, kind string) m3thrift.Metric {
		m := m3thrift.Metric{Name: name, Timestamp: math.MaxInt64, Tags: tags}
		switch kind {
		case "gauge":
			m.Value = m3thrift.MetricValue{MetricType: m3thrift.MetricType_GAUGE, Gauge: math.MaxFloat64}
		case "timer":
			m.Value = m3thrift.MetricValue{MetricType: m3thrift.MetricType_TIMER, Timer: math.MaxInt64}
		default:
			m.Value = m3thrift.MetricValue{MetricType: m3thrift.MetricType_COUNTER, Count: math.MaxInt64}
		}
		return m
	}
	bucketLen := 60
	if n := 2*(13+int(c.Precision)) + 1; n > bucketLen {
		bucketLen = n // "<lower>-<upper>": bounds below 2e10, each rendered with that many decimals
	}
	bucketTags := []m3thrift.MetricTag{{Name: "bucketid", Value: "0000"}, {Name: "bucket", Value: strings.Repeat("x", bucketLen)}}
	itm := map[string]string{"version": tally.Version, "host": "global", "instance": "global"}
	for k, v := range c.Internal {
		itm[string(k)] = string(v)
	}
	var internalTags []m3thrift.MetricTag
	for k, v := range itm {
		internalTags = append(internalTags, m3thrift.MetricTag{Name: k, Value: v})
	}
	L := m3h.MessageSize(c.Binary, math.MaxInt32, m3thrift.MetricBatch{CommonTags: common, Metrics: []m3thrift.Metric{
		worst("tally.internal.num-write-errors", append(append([]m3thrift.MetricTag{}, internalTags...), bucketTags...), "counter")}})
	for i, ms := range c.Metrics {
		tags := mtags(ms.Tags)
		if ms.Kind == "vhist" || ms.Kind == "dhist" {
			tags = append(tags, bucketTags...)
		}
		if s := m3h.MessageSize(c.Binary, math.MaxInt32, m3thrift.MetricBatch{CommonTags: common, Metrics: []m3thrift.Metric{worst(metricName(nameIndex(c.Metrics, i), ms.NameLen), tags, ms.Kind)}}); s > L {
			L = s
		}
	}
	maxPacket := L + c.Slack
	switch c.SizeMode {
	case "default":
		if maxPacket < 1440 {
			maxPacket = 1440
		}
	case "big":
		if maxPacket < c.Big {
			maxPacket = c.Big
		}
	}
	if maxPacket > 65000 {
		return out, nil // a single metric does not fit the transport: outside C12's domain
	}

	// ---- hooks
	var mu sync.Mutex
	batches := 0
	var charges []chargeRec
	var overhead, free int32
	// (the predecessor comes and - unless Pred is 3 - goes before the hooks are installed: they are
	// process-wide and would count its batches as the judged reporter's)
	if c.Pred > 0 {
		psink, perr := udpsink.New()
		if perr != nil {
			return out, fmt.Errorf("harness: cannot open sink: %v", perr)
		}
		defer psink.Close()
		pproto := m3.Compact
		if c.Binary == (c.Pred == 1) {
			pproto = m3.Binary // Pred 1: the same protocol as the reporter under test; 2, 3: the other one
		}
		pred, perr := m3.NewReporter(m3.Options{HostPorts: []string{psink.Addr}, Service: "pred", Env: "test", Protocol: pproto})
		if perr != nil {
			return out, fmt.Errorf("harness: NewReporter (predecessor): %v", perr)
		}
		pred.AllocateCounter("pred", map[string]string{"k": "v"}).ReportCount(1)
		pred.Flush()
		if !psink.WaitAll(1) {
			return out, fmt.Errorf("harness: the predecessor reporter's datagram did not arrive")
		}
		if c.Pred == 3 {
			defer pred.Close()
		} else {
			_ = pred.Close()
		}
		out.Classes = append(out.Classes, fmt.Sprintf("predecessor-reporter-%d", c.Pred))
	}
	var paceOff atomic.Bool
	paceMult := 1
	if c.Dup {
		paceMult = 2 // every batch is two datagrams at the sink
	}
	m3.VerifSetHooks(&m3.VerifHooks{
		NoteBatch: func(mets []m3thrift.Metric, ct []m3thrift.MetricTag, freeBytes, overheadBytes int32) {
			mu.Lock()
			batches++
			b := batches
			overhead, free = overheadBytes, freeBytes
			mu.Unlock()
			if !paceOff.Load() && !sink.Pace((b-1)*paceMult, 256) { // never more than a few hundred datagrams in flight (see udpsink.Pace)
				paceOff.Store(true)
			}
		},
		NoteCharged: func(size int32, m *m3thrift.Metric) {
			real := m3h.MetricSize(c.Binary, *m)
			mu.Lock()
			if len(charges) < 100000 {
				charges = append(charges, chargeRec{size, real})
			}
			mu.Unlock()
		},
	})
	defer m3.VerifSetHooks(nil)

	proto := m3.Compact
	if c.Binary {
		proto = m3.Binary
	}
	hostPorts, mult := []string{sink.Addr}, 1
	if c.Dup {
		hostPorts, mult = []string{sink.Addr, sink.Addr}, 2
		out.Classes = append(out.Classes, "destination-listed-twice")
	}
	r, err := m3.NewReporter(m3.Options{
		HostPorts: hostPorts, Service: "svc", Env: "test", CommonTags: commonOpt, IncludeHost: c.IncludeHost > 0,
		Protocol: proto, MaxQueueSize: c.Queue, MaxPacketSizeBytes: int32(maxPacket),
		HistogramBucketTagPrecision: c.Precision, InternalTags: c.Internal.Std(),
	})
	if err != nil {
		return out, fmt.Errorf("NewReporter(MaxPacketSizeBytes=%d, lower bound %d): %v", maxPacket, L, err)
	}
	closed := false
	defer func() {
		if !closed {
			_ = r.Close()
		}
	}()

	var want []string // canonical metrics in report order
	syncSink := func() bool {
		mu.Lock()
		n := batches
		mu.Unlock()
		return sink.WaitAll(n * mult)
	}
	if c.PreAge > 0 {
		ac := r.AllocateCounter("age", nil)
		for i := 0; i < c.PreAge; i++ {
			ac.ReportCount(int64(i))
			want = append(want, m3h.Canon(m3thrift.Metric{Name: "age", Value: m3thrift.MetricValue{MetricType: m3thrift.MetricType_COUNTER, Count: int64(i)}}))
			r.Flush()
			if i%50 == 49 {
				// flow control: every flush so far yields at least one datagram (several when the
				// packet size is minimal and the reporter's own metrics need packets of their own);
				// wait until the worker has emitted them and the sink has received everything
				// emitted, so that only a few hundred small datagrams can ever sit in the socket buffer
				if !sink.WaitAll((i+1)*mult) || !syncSink() {
					return out, fmt.Errorf("harness: sink did not keep up with the pre-ageing datagrams (machine too busy?)")
				}
			}
		}
	}

	type handle struct {
		c  tally.CachedCount
		g  tally.CachedGauge
		t  tally.CachedTimer
		hb []tally.CachedHistogramBucket
		bt [][2]string // bucket id / bucket tag values
	}
	hs := make([]handle, len(c.Metrics))
	for i, ms := range c.Metrics {
		name := metricName(nameIndex(c.Metrics, i), ms.NameLen)
		tags := ms.Tags.Std()
		switch ms.Kind {
		case "counter":
			hs[i].c = r.AllocateCounter(name, tags)
		case "gauge":
			hs[i].g = r.AllocateGauge(name, tags)
		case "timer":
			hs[i].t = r.AllocateTimer(name, tags)
		case "vhist":
			spec := make(tally.ValueBuckets, ms.NBounds)
			for j := range spec {
				// magnitudes vary so that the rendered bucket ranges ("lo-hi" tag values) differ a lot in length
				spec[j] = float64(j+1) * 1.5 * math.Pow(1000, float64(j%4))
			}
			h := r.AllocateHistogram(name, tags, spec)
			for _, p := range tally.BucketPairs(spec) {
				hs[i].hb = append(hs[i].hb, h.ValueBucket(p.LowerBoundValue(), p.UpperBoundValue()))
			}
		case "dhist":
			spec := make(tally.DurationBuckets, ms.NBounds)
			for j := range spec {
				spec[j] = time.Duration(j+1) * 1500 * time.Microsecond * time.Duration(math.Pow(60, float64(j%4)))
			}
			h := r.AllocateHistogram(name, tags, spec)
			for _, p := range tally.BucketPairs(spec) {
				hs[i].hb = append(hs[i].hb, h.DurationBucket(p.LowerBoundDuration(), p.UpperBoundDuration()))
			}
		}
	}
	for i := 0; i < c.ManySets; i++ {
		r.AllocateCounter("filler", map[string]string{"set": fmt.Sprint(i), "kkkkkkkkkkkkkkkk": "vvvvvvvvvvvvvvvvvvvvvvvvvvvvvvvvvvvvvvvv"})
	}
	if c.ManySets > 0 {
		out.Classes = append(out.Classes, "many-tag-sets")
	}
	kindOf := func(k string) m3thrift.MetricType {
		switch k {
		case "gauge":
			return m3thrift.MetricType_GAUGE
		case "timer":
			return m3thrift.MetricType_TIMER
		}
		return m3thrift.MetricType_COUNTER
	}
	histOps := 0
	report := func(op SOp) {
		ms := c.Metrics[op.M]
		name := metricName(nameIndex(c.Metrics, op.M), ms.NameLen)
		exp := m3thrift.Metric{Name: name, Tags: mtags(ms.Tags), Value: m3thrift.MetricValue{MetricType: kindOf(ms.Kind)}}
		switch ms.Kind {
		case "counter":
			hs[op.M].c.ReportCount(op.I)
			exp.Value.Count = op.I
		case "gauge":
			hs[op.M].g.ReportGauge(op.F.V())
			exp.Value.Gauge = op.F.V()
		case "timer":
			hs[op.M].t.ReportTimer(time.Duration(op.I))
			exp.Value.Timer = op.I
		default:
			b := op.B % len(hs[op.M].hb)
			hs[op.M].hb[b].ReportSamples(op.I)
			exp.Value.Count = op.I
			exp.Name = "HIST:" + name // bucket tags are compared loosely below
			histOps++
		}
		want = append(want, m3h.Canon(exp))
	}
	total := 0
	for _, op := range c.Stream {
		reps := op.Rep
		if reps < 0 {
			// burst: enough to fill at least three packets
			per := m3h.MetricSize(c.Binary, worst(metricName(nameIndex(c.Metrics, op.M), c.Metrics[op.M].NameLen), mtags(c.Metrics[op.M].Tags), c.Metrics[op.M].Kind))
			reps = 3*maxPacket/per + 3
			if reps > 4000 {
				reps = 4000
			}
		}
		for k := 0; k <= reps; k++ {
			report(op)
			total++
			if total%2000 == 0 {
				syncSink()
			}
		}
		if op.Flush {
			r.Flush()
		}
	}
	r.Flush()
	_ = r.Close()
	closed = true
	if !syncSink() {
		mu.Lock()
		n := batches
		mu.Unlock()
		errs.Addf("%d batches were handed to the thrift client but only %d datagrams arrived within 30s (a batch the transport refused, or loss)", n, sink.Count())
	}
	grams := sink.Datagrams()
	if c.Dup {
		// each batch is sent to the destination once per mention, one after the other
		var once [][]byte
		for i := 0; i+1 < len(grams); i += 2 {
			if !bytes.Equal(grams[i], grams[i+1]) {
				errs.Addf("destination listed twice: datagrams %d and %d (%d and %d bytes) should be the two copies of one batch", i, i+1, len(grams[i]), len(grams[i+1]))
				break
			}
			once = append(once, grams[i])
		}
		if len(grams)%2 != 0 {
			errs.Addf("destination listed twice: %d datagrams arrived, want an even number (every batch twice)", len(grams))
		}
		for _, d := range grams {
			if len(d) > maxPacket {
				errs.Addf("destination listed twice: a datagram of %d bytes, MaxPacketSizeBytes is %d", len(d), maxPacket)
				break
			}
		}
		grams = once
	}

	// ---- deciding oracle: size bound, nothing dropped/duplicated/reordered
	var got []string
	over := 0
	near := false
	for gi, d := range grams {
		if len(d) > maxPacket {
			over++
			if over <= 3 {
				errs.Addf("datagram %d is %d bytes, MaxPacketSizeBytes is %d (protocol binary=%v, charged overhead %d, free %d)", gi, len(d), maxPacket, c.Binary, overhead, free)
			}
		}
		if len(d) > maxPacket-64 {
			near = true
		}
		_, batch, err := m3h.Decode(c.Binary, d)
		if err != nil {
			errs.Addf("datagram %d (%d bytes) does not decode as one one-way message: %v", gi, len(d), err)
			continue
		}
		for _, m := range batch.Metrics {
			if m3h.IsInternal(m.Name) {
				continue
			}
			hasBucket := false
			var rest []m3thrift.MetricTag
			for _, tg := range m.Tags {
				if tg.Name == "bucketid" || tg.Name == "bucket" {
					hasBucket = true
				} else {
					rest = append(rest, tg)
				}
			}
			cm := m
			cm.Tags = rest
			if hasBucket {
				cm.Name = "HIST:" + m.Name
			}
			got = append(got, m3h.Canon(cm))
		}
	}
	if len(got) != len(want) {
		errs.Addf("%d metrics reported, %d decoded from %d datagrams", len(want), len(got), len(grams))
	}
	for i := 0; i < len(got) && i < len(want); i++ {
		if got[i] != want[i] {
			errs.Addf("metric #%d decoded as %.200s, reported %.200s (dropped, duplicated or reordered at a packet boundary)", i, got[i], want[i])
			break
		}
	}
	// ---- diagnostic only
	under := 0
	for _, ch := range charges {
		if int(ch.charged) < ch.real {
			under++
		}
	}
	out.NonTrivial = len(grams) >= 2 && near
	out.Classes = append(out.Classes, c.Strategy, "sizeMode="+c.SizeMode)
	if c.Binary {
		out.Classes = append(out.Classes, "binary")
	} else {
		out.Classes = append(out.Classes, "compact")
	}
	if histOps > 0 {
		out.Classes = append(out.Classes, "histogram-buckets")
	}
	if under > 0 {
		out.Classes = append(out.Classes, "diag:metric-charged-less-than-encoded")
	}
	if c.PreAge > 0 {
		out.Classes = append(out.Classes, fmt.Sprintf("preAge=%d", c.PreAge))
	}
	return out, errs.Err()
}

func TestC12(t *testing.T) {
	pbt.Main(t, pbt.Prop[Case]{
		ID: "C12", Name: "size",
		Rule: "rapid-generated M3 reporter configurations (Compact/Binary, 0..8 common tags, queue size 1..4096, MaxPacketSizeBytes = the smallest size at which the largest single metric still fits on its own (computed with the real encoder at worst-case values and sequence id) plus slack 0..300, or the 1440 default, or up to 65000; reporter pre-aged by 0/130/17000 batches so that the sequence id varint grows) and metric streams: 'mixed' (1..5 metrics of all kinds, names 1..600 bytes, 0..8 tags, extreme values, histogram buckets, flushes at random positions, repeats) or 'burst' (one template repeated until at least three packets are full; optionally a gauge with the same name and tags allocated first); metrics may be 'twins' (same name and tags, different kind). Real loopback UDP sink. Deciding oracle: every datagram <= MaxPacketSizeBytes and decodes as one message; concatenation of decoded (non-internal) metrics over datagrams == the reported sequence. Diagnostic only: charged vs encoded size per metric via the verif observation hooks. Non-trivial: >=2 datagrams and one within 64 bytes of the limit. Distinct: FNV-64 of the case JSON.",
		Gen:  gen, Run: run, HangAfter: 300 * time.Second,
	})
}

// ---------------------------------------------------------------- outage mode: send errors, then more traffic

// OutCase: the destination goes away for a while (sends fail with ECONNREFUSED)
// while packets keep filling, and comes back. The size bound and "the metric
// that does not fit starts the next packet" must survive a failed send: a
// batch that could not be sent must not be stacked onto the next one.
type OutCase struct {
	Binary  bool  `json:"binary"`
	Slack   int   `json:"slack"`
	Default bool  `json:"default"` // MaxPacketSizeBytes 1440 instead of the minimum
	NameLen int   `json:"nameLen"`
	NTags   int   `json:"ntags"`
	Hist    bool  `json:"hist"`
	Up1     []int `json:"up1"`     // metrics per burst while the destination is up (flush after each burst)
	Down    []int `json:"down"`    // bursts while it is gone
	Up2     []int `json:"up2"`     // bursts after it came back
	NoFlush bool  `json:"noflush"` // no explicit Flush between bursts while down: packets are cut by size only
}

func genOut(t *rapid.T) OutCase {
	g := func(label string, min, max int) []int {
		return rapid.SliceOfN(rapid.IntRange(1, 120), min, max).Draw(t, label)
	}
	return OutCase{Binary: rapid.Bool().Draw(t, "binary"), Slack: rapid.SampledFrom([]int{0, 1, 7, 40, 300}).Draw(t, "slack"),
		Default: rapid.Bool().Draw(t, "default"), NameLen: rapid.IntRange(1, 80).Draw(t, "nameLen"), NTags: rapid.IntRange(0, 4).Draw(t, "ntags"),
		Hist: rapid.Bool().Draw(t, "hist"), Up1: g("up1", 0, 2), Down: g("down", 1, 4), Up2: g("up2", 1, 3), NoFlush: rapid.Bool().Draw(t, "noflush")}
}

func runOut(c OutCase) (pbt.Outcome, error) {
	var errs pbt.Errs
	var out pbt.Outcome
	sink, err := udpsink.New()
	if err != nil {
		return out, fmt.Errorf("harness: %v", err)
	}
	port := sink.Port()
	name := metricName(0, c.NameLen)
	tags := map[string]string{}
	var ttags []m3thrift.MetricTag
	for i := 0; i < c.NTags; i++ {
		k, v := fmt.Sprintf("k%d", i), strings.Repeat("v", 3*i+1)
		tags[k] = v
		ttags = append(ttags, m3thrift.MetricTag{Name: k, Value: v})
	}
	common := []m3thrift.MetricTag{{Name: "service", Value: "svc"}, {Name: "env", Value: "test"}}
	bucketTags := []m3thrift.MetricTag{{Name: "bucketid", Value: "0000"}, {Name: "bucket", Value: strings.Repeat("x", 60)}}
	internalTags := []m3thrift.MetricTag{{Name: "version", Value: tally.Version}, {Name: "host", Value: "global"}, {Name: "instance", Value: "global"}}
	worst := func(n string, tg []m3thrift.MetricTag) m3thrift.Metric {
		return m3thrift.Metric{Name: n, Timestamp: math.MaxInt64, Tags: tg, Value: m3thrift.MetricValue{MetricType: m3thrift.MetricType_COUNTER, Count: math.MaxInt64}}
	}
	L := m3h.MessageSize(c.Binary, math.MaxInt32, m3thrift.MetricBatch{CommonTags: common, Metrics: []m3thrift.Metric{
		worst("tally.internal.num-write-errors", append(append([]m3thrift.MetricTag{}, internalTags...), bucketTags...))}})
	mt := ttags
	if c.Hist {
		mt = append(append([]m3thrift.MetricTag{}, ttags...), bucketTags...)
	}
	if s := m3h.MessageSize(c.Binary, math.MaxInt32, m3thrift.MetricBatch{CommonTags: common, Metrics: []m3thrift.Metric{worst(name, mt)}}); s > L {
		L = s
	}
	maxPacket := L + c.Slack
	if c.Default && maxPacket < 1440 {
		maxPacket = 1440
	}
	var mu sync.Mutex
	batches := 0
	emitted := int64(0) // largest value handed to the thrift client so far (values are reported in increasing order)
	m3.VerifSetHooks(&m3.VerifHooks{NoteBatch: func(mets []m3thrift.Metric, ct []m3thrift.MetricTag, f, o int32) {
		mu.Lock()
		batches++
		for _, m := range mets {
			if !m3h.IsInternal(m.Name) && m.Value.Count > emitted {
				emitted = m.Value.Count
			}
		}
		mu.Unlock()
	}})
	defer m3.VerifSetHooks(nil)
	nb := func() int { mu.Lock(); defer mu.Unlock(); return batches }
	drained := func(v int64) bool { mu.Lock(); defer mu.Unlock(); return emitted >= v }
	proto := m3.Compact
	if c.Binary {
		proto = m3.Binary
	}
	r, err := m3.NewReporter(m3.Options{HostPorts: []string{sink.Addr}, Service: "svc", Env: "test", Protocol: proto, MaxQueueSize: 4096, MaxPacketSizeBytes: int32(maxPacket)})
	if err != nil {
		sink.Close()
		return out, fmt.Errorf("NewReporter(MaxPacketSizeBytes=%d, lower bound %d): %v", maxPacket, L, err)
	}
	defer r.Close()
	cnt := r.AllocateCounter(name, tags)
	hb := r.AllocateHistogram(name, tags, tally.ValueBuckets{1, 2}).ValueBucket(1, 2)
	next := int64(1)
	phase := map[int64]string{}
	burst := func(n int, ph string, flush bool) {
		for i := 0; i < n; i++ {
			phase[next] = ph
			if c.Hist {
				hb.ReportSamples(next)
			} else {
				cnt.ReportCount(next)
			}
			next++
		}
		if flush {
			r.Flush()
			// wait until the batching goroutine has handed everything reported so far to the client
			deadline := time.Now().Add(5 * time.Second)
			for !drained(next-1) && time.Now().Before(deadline) {
				time.Sleep(50 * time.Microsecond)
			}
		}
	}
	for _, n := range c.Up1 {
		burst(n, "up1", true)
	}
	if !sink.WaitAll(nb()) {
		errs.Addf("destination up: %d batches emitted, %d datagrams arrived", nb(), sink.Count())
	}
	first := sink.Datagrams()
	sink.Close() // the destination goes away: sends now fail with ECONNREFUSED (every other one)
	for _, n := range c.Down {
		burst(n, "down", !c.NoFlush)
		time.Sleep(200 * time.Microsecond) // let the ICMP error come back
	}
	burst(1, "down", true)
	time.Sleep(500 * time.Microsecond)
	sink2, err := udpsink.NewAt(port)
	if err != nil {
		return out, fmt.Errorf("harness: cannot re-open port %d: %v", port, err)
	}
	defer sink2.Close()
	base := nb()
	for _, n := range c.Up2 {
		burst(n, "up2", true)
	}
	sink2.WaitCount(nb()-base-1, 5*time.Second)
	sink2.WaitCount(nb()-base, 2*time.Millisecond)
	seen := map[int64]int{}
	last := int64(0)
	ngrams, near := 0, false
	check := func(grams [][]byte, label string) {
		for gi, d := range grams {
			ngrams++
			if len(d) > maxPacket {
				errs.Addf("%s datagram %d is %d bytes, MaxPacketSizeBytes is %d (binary=%v): a batch whose send failed was stacked onto a later one?", label, gi, len(d), maxPacket, c.Binary)
			}
			if len(d) > maxPacket-64 {
				near = true
			}
			_, batch, err := m3h.Decode(c.Binary, d)
			if err != nil {
				errs.Addf("%s datagram %d (%d bytes) does not decode as one message: %v", label, gi, len(d), err)
				continue
			}
			for _, m := range batch.Metrics {
				if m3h.IsInternal(m.Name) {
					continue
				}
				v := m.Value.Count
				if _, ok := phase[v]; !ok {
					errs.Addf("%s datagram %d carries a value %d that was never reported", label, gi, v)
					continue
				}
				seen[v]++
				if v <= last {
					errs.Addf("%s datagram %d: value %d arrived after value %d (reordered or duplicated across a packet boundary)", label, gi, v, last)
				}
				last = v
			}
		}
	}
	check(first, "first-phase")
	check(sink2.Datagrams(), "after-recovery")
	for v, n := range seen {
		if n > 1 {
			errs.Addf("value %d (phase %s) was delivered %d times", v, phase[v], n)
		}
	}
	for v, ph := range phase {
		if ph == "up1" && seen[v] != 1 {
			errs.Addf("value %d reported while the destination was up was delivered %d times", v, seen[v])
		}
	}
	out.NonTrivial = ngrams >= 2 && near
	if c.Hist {
		out.Classes = append(out.Classes, "histogram-buckets")
	}
	if c.NoFlush {
		out.Classes = append(out.Classes, "size-cut-only-while-down")
	}
	return out, errs.Err()
}

func TestOutage(t *testing.T) {
	pbt.Main(t, pbt.Prop[OutCase]{
		ID: "C12", Name: "outage",
		Rule: "fault sequences: an M3 reporter (Compact/Binary, MaxPacketSizeBytes = minimum feasible + slack, or 1440) sends bursts of 1..120 uniquely valued counters or histogram-bucket metrics; the loopback destination is closed for 1..4 bursts (sends fail with ECONNREFUSED; with or without explicit flushes, so packets are also cut by size alone during the outage) and then re-opened on the same port for 1..3 more bursts. Oracle: EVERY datagram that arrives, before or after the outage, is <= MaxPacketSizeBytes and decodes as one message; values arrive in strictly increasing order (nothing duplicated or reordered across a packet boundary or across a failed send); everything reported while the destination was up the first time arrives exactly once. Non-trivial: >=2 datagrams and one within 64 bytes of the limit.",
		Gen:  genOut, Run: runOut, HangAfter: 300 * time.Second,
	})
}

// ---------------------------------------------------------------- concurrent allocation, then packet-filling bursts

// AllocCase: histograms (value and duration flavour: bucket tag strings of very different
// length) are allocated CONCURRENTLY under one shared tag set - the converted tag slice is shared
// through the reporter's tag cache - and then every bucket is used to fill packets. A size that was
// measured on a tag list another goroutine was writing to at the same time under-charges the bucket.
type AllocCase struct {
	Binary  bool `json:"binary"`
	NTags   int  `json:"ntags"` // 0..8: the shared tag set
	Pairs   int  `json:"pairs"` // goroutine pairs (one value, one duration histogram each)
	Slack   int  `json:"slack"`
	PerHist int  `json:"perhist"` // samples per bucket
}

func genAlloc(t *rapid.T) AllocCase {
	return AllocCase{Binary: rapid.Bool().Draw(t, "binary"), NTags: rapid.IntRange(0, 8).Draw(t, "ntags"), Pairs: rapid.IntRange(2, 8).Draw(t, "pairs"),
		Slack: rapid.SampledFrom([]int{0, 1, 7, 40}).Draw(t, "slack"), PerHist: rapid.IntRange(20, 60).Draw(t, "perhist")}
}

func runAlloc(c AllocCase) (pbt.Outcome, error) {
	var errs pbt.Errs
	var out pbt.Outcome
	sink, err := udpsink.New()
	if err != nil {
		return out, fmt.Errorf("harness: %v", err)
	}
	defer sink.Close()
	tags := map[string]string{}
	for i := 0; i < c.NTags; i++ {
		tags[fmt.Sprintf("k%d", i)] = strings.Repeat("v", i+1)
	}
	maxPacket := 1440 + c.Slack
	var mu sync.Mutex
	batches := 0
	m3.VerifSetHooks(&m3.VerifHooks{NoteBatch: func(mets []m3thrift.Metric, ct []m3thrift.MetricTag, f, o int32) {
		mu.Lock()
		batches++
		mu.Unlock()
	}})
	defer m3.VerifSetHooks(nil)
	proto := m3.Compact
	if c.Binary {
		proto = m3.Binary
	}
	r, err := m3.NewReporter(m3.Options{HostPorts: []string{sink.Addr}, Service: "svc", Env: "test", Protocol: proto, MaxQueueSize: 4096, MaxPacketSizeBytes: int32(maxPacket)})
	if err != nil {
		return out, fmt.Errorf("harness: NewReporter: %v", err)
	}
	// bucket range strings of very different length: "1000000000000000.000000-2000000000000000.000000" vs "1ms-2ms"
	vspec := tally.ValueBuckets{1e15, 2e15}
	dspec := tally.DurationBuckets{time.Millisecond, 2 * time.Millisecond}
	type hb struct {
		name string
		b    tally.CachedHistogramBucket
	}
	var all []hb
	var amu sync.Mutex
	var wg sync.WaitGroup
	start := make(chan struct{})
	for i := 0; i < c.Pairs; i++ {
		i := i
		wg.Add(2)
		go func() {
			defer wg.Done()
			<-start
			h := r.AllocateHistogram(fmt.Sprintf("hv%d", i), tags, vspec)
			b := h.ValueBucket(1e15, 2e15)
			amu.Lock()
			all = append(all, hb{fmt.Sprintf("hv%d", i), b})
			amu.Unlock()
		}()
		go func() {
			defer wg.Done()
			<-start
			h := r.AllocateHistogram(fmt.Sprintf("hd%d", i), tags, dspec)
			b := h.DurationBucket(time.Millisecond, 2*time.Millisecond)
			amu.Lock()
			all = append(all, hb{fmt.Sprintf("hd%d", i), b})
			amu.Unlock()
		}()
	}
	close(start)
	wg.Wait()
	want := map[string]int{}
	for _, h := range all {
		for k := 0; k < c.PerHist; k++ {
			h.b.ReportSamples(math.MaxInt64)
			want[h.name]++
		}
	}
	r.Flush()
	_ = r.Close()
	mu.Lock()
	nb := batches
	mu.Unlock()
	if !sink.WaitAll(nb) {
		errs.Addf("%d batches emitted, %d datagrams arrived within 30s", nb, sink.Count())
	}
	got := map[string]int{}
	near := false
	grams := sink.Datagrams()
	for gi, d := range grams {
		if len(d) > maxPacket {
			errs.Addf("datagram %d is %d bytes, MaxPacketSizeBytes is %d (binary=%v; histograms were allocated concurrently under one shared tag set of %d tags)", gi, len(d), maxPacket, c.Binary, c.NTags)
		}
		if len(d) > maxPacket-64 {
			near = true
		}
		_, batch, err := m3h.Decode(c.Binary, d)
		if err != nil {
			errs.Addf("datagram %d does not decode: %v", gi, err)
			continue
		}
		for _, m := range batch.Metrics {
			if !m3h.IsInternal(m.Name) {
				got[m.Name]++
			}
		}
	}
	for n, w := range want {
		if got[n] != w {
			errs.Addf("histogram %s: %d bucket samples reported, %d decoded", n, w, got[n])
		}
	}
	out.NonTrivial = len(grams) >= 2 && near
	return out, errs.Err()
}

func TestConcAlloc(t *testing.T) {
	pbt.Main(t, pbt.Prop[AllocCase]{
		ID: "C12", Name: "concalloc",
		Rule: "concurrent allocation: 2..8 pairs of goroutines allocate a value and a duration histogram each, at the same time, under ONE shared tag set of 0..8 tags (the converted tags are shared through the reporter's tag cache; the two flavours have bucket tag strings of very different length), then every bucket reports 20..60 maximal sample counts so that packets fill; Compact/Binary, MaxPacketSizeBytes 1440 + slack. Oracle: every datagram <= MaxPacketSizeBytes and decodes, every sample arrives. Non-trivial: >=2 datagrams, one within 64 bytes of the limit. The allocation interleaving is the runtime's (replays retried).",
		Gen:  genAlloc, Run: runAlloc, Retries: 30, HangAfter: 120 * time.Second,
	})
}

#!/bin/bash
# usage: tools_neutral_all.sh <worker> <nworkers> [checks...]
# Applies every behaviour-preserving patch kept under seeded/neutral*/<ID>/patch.diff (worker i takes
# every nworkers-th one) to a scratch worktree of /repo and runs the quick checks against it
# (all of them if checks are listed, else those whose subject the patch touches; VERIF_REPO /
# VERIF_OUT: /repo itself is never modified). Prints one line per patch; any line
# starting with "---" is an alarm on code in which the properties hold.
cd "$(dirname "$0")"
W=$1; N=$2; shift 2
EXPLICIT="$*"
CHECKS=${*:-C01 C02 C03 C04 C05 C06 C07 C08 C09 C10 C11 C12 C13 C14 C15 C16 C17 C18 C19 C20}
export GOFLAGS=-mod=mod GOPROXY=off GOSUMDB=off GOTOOLCHAIN=local
i=0
for pd in ${NEUT_GLOB:-seeded/neutral*/C*/patch.diff}; do
  i=$((i+1)); [ $((i % N)) -eq $((W % N)) ] || continue
  tag=$(echo $pd | sed 's|seeded/||; s|/patch.diff||; s|/|-|')
  T=/tmp/neutall-$tag
  git -C /repo worktree remove --force $T 2>/dev/null; rm -rf $T-out
  git -C /repo worktree add -q --detach $T HEAD || continue
  if ! git -C $T apply $PWD/$pd 2>/dev/null && ! git -C $T apply -3 $PWD/$pd >/dev/null 2>&1; then echo "=== $tag PATCH DOES NOT APPLY (tree has moved on)"; git -C /repo worktree remove --force $T; continue; fi
  if ! (cd $T && go build -tags verif ./... >/dev/null 2>&1); then echo "=== $tag DOES NOT BUILD"; git -C /repo worktree remove --force $T; continue; fi
  bad=0
  checks=$CHECKS
  if [ -z "$EXPLICIT" ]; then
    # the checks whose subject the patch touches: root package -> C01..C11, C20; m3 -> C12..C16; ...
    checks=""
    files=$(grep -a "^+++ b/" $PWD/$pd | sed 's|+++ b/||')
    echo "$files" | grep -q -v "/" && checks="$checks C01 C02 C03 C04 C05 C06 C07 C08 C09 C10 C11 C20"
    echo "$files" | grep -q "^instrument/" && checks="$checks C10"
    echo "$files" | grep -q "^internal/" && checks="$checks C05 C12 C13 C14 C20"
    echo "$files" | grep -q "^m3/" && checks="$checks C12 C13 C14 C15 C16"
    echo "$files" | grep -q "^prometheus/" && checks="$checks C17"
    echo "$files" | grep -q "^statsd/" && checks="$checks C18"
    echo "$files" | grep -q "^multi/" && checks="$checks C19"
    checks=$(echo $checks | tr ' ' '\n' | sort -u | tr '\n' ' ')
  fi
  for c in $checks; do
    out=$(VERIF_REPO=$T VERIF_OUT=$T-out ./check $c --tier quick 2>&1 | grep -a -v "^WARNING\|^KNOWN-FINDING")
    rc=$(echo "$out" | grep -a -c "^VIOLATION"); inc=$(echo "$out" | grep -a -c "^INCONCLUSIVE"); ok=$(echo "$out" | grep -a -c "^OK property=$c")
    if [ "$rc" != "0" ] || [ "$inc" != "0" ] || [ "$ok" != "1" ]; then bad=1; echo "--- $tag/$c: violations=$rc inconclusive=$inc ok=$ok"; echo "$out" | grep -a -v "^VIOLATION" | cut -c1-500 | head -6; mkdir -p /tmp/neutral-keep/$tag-$c; cp -r $T-out/replays/$c /tmp/neutral-keep/$tag-$c/ 2>/dev/null; fi
  done
  echo "=== $tag silent=$((1-bad)) $(date +%T)"
  git -C /repo worktree remove --force $T; rm -rf $T-out
done
echo ALLDONE

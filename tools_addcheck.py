#!/usr/bin/env python3
# usage: tools_addcheck.py <ID> <json-fragment-file>   (merges/replaces one check entry in checks.json)
import json, sys
c = json.load(open('/verif/checks.json'))
frag = json.load(open(sys.argv[2]))
c['checks'][sys.argv[1]] = frag
eng = c['engines'][0]
eng['serves_properties'] = sorted(c['checks'].keys())
json.dump(c, open('/verif/checks.json', 'w'), indent=1)

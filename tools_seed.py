#!/usr/bin/env python3
"""Confirm a seeded breakage and run the checks against it.
usage: tools_seed.py <seed-id> <src-dir> <property> [<more check ids to run>...]
  src-dir holds patch.diff, one or more *_test.go / *.go demonstration files and notes.md
  Confirms in a scratch worktree: suite passes with the patch, demo fails with it, demo passes without it.
  Then applies the patch to a second scratch worktree, runs the listed checks (quick tier) against it
  (VERIF_REPO/VERIF_OUT: /repo and /verif/evidence stay untouched) and writes /verif/seeded/<seed-id>/. --all = every check.
"""
import sys, os, subprocess, json, shutil, glob, re, time
sid, src, prop = sys.argv[1], sys.argv[2], sys.argv[3]
note = None
if "--note" in sys.argv:
    i = sys.argv.index("--note")
    note = sys.argv[i + 1]
    del sys.argv[i:i + 2]
checks = [prop] + [a for a in sys.argv[4:] if a != "--all"]
if "--all" in sys.argv:
    checks = [prop] + ["C%02d" % i for i in range(1, 21) if "C%02d" % i != prop]
ENV = dict(os.environ, GOFLAGS="-mod=mod", GOPROXY="off", GOSUMDB="off", GOTOOLCHAIN="local")
def sh(cmd, cwd=None, timeout=3600):
    p = subprocess.run(cmd, shell=True, cwd=cwd, env=ENV, stdout=subprocess.PIPE, stderr=subprocess.STDOUT, text=True, errors="replace", timeout=timeout)
    return p.returncode, p.stdout
wt = "/tmp/confirm-" + sid
sh("git -C /repo worktree remove --force %s" % wt)
rc, out = sh("git -C /repo worktree add -q --detach %s HEAD" % wt)
assert rc == 0, out
meta = {"seed": sid, "property": prop, "base_commit": sh("git -C /repo rev-parse --short HEAD")[1].strip()}
try:
    patch = os.path.join(src, "patch.diff")
    rc, out = sh("git apply --check %s" % patch, cwd=wt)
    assert rc == 0, "patch does not apply: " + out
    # where do the demo files go? notes.md says; default: module root for package tally, else by package clause
    demos = [f for f in glob.glob(os.path.join(src, "*.go"))]
    assert demos, "no demo files"
    placed = []
    for d in demos:
        txt = open(d).read()
        m = re.search(r"^package\s+(\w+)", txt, re.M)
        pkg = m.group(1)
        if pkg.endswith("_test") and pkg != "tally_test":
            pkg = pkg[:-5]
        sub = {"tally": ".", "tally_test": ".", "m3": "m3", "m3_test": "m3", "thriftudp": "m3/thriftudp", "prometheus": "prometheus", "multi": "multi", "statsd": "statsd", "instrument": "instrument", "customtransport": "m3/customtransports", "cache": "internal/cache", "v2": "m3/thrift/v2", "m3thrift": "m3/thrift/v2", "thrift": "thirdparty/github.com/apache/thrift/lib/go/thrift", "main": None}.get(pkg, ".")
        placed.append((d, sub, pkg))
    pkgs = sorted({("./" + s if s != "." else ".") for _, s, _ in placed if s is not None})
    def place():
        for d, sub, pkg in placed:
            if sub is None:
                os.makedirs(os.path.join(wt, "zz_demo"), exist_ok=True)
                shutil.copy(d, os.path.join(wt, "zz_demo", os.path.basename(d)))
            else:
                shutil.copy(d, os.path.join(wt, sub, os.path.basename(d)))
    def unplace():
        for d, sub, pkg in placed:
            p = os.path.join(wt, sub if sub else "zz_demo", os.path.basename(d))
            if os.path.exists(p):
                os.remove(p)
    # names of demo tests
    names = []
    for d, sub, pkg in placed:
        names += re.findall(r"^func (Test\w+)\(", open(d).read(), re.M)
    runexpr = "^(" + "|".join(names) + ")$" if names else "."
    demo_cmd = "go test -vet=off -count=1 -run '%s' %s" % (runexpr, " ".join(pkgs) if pkgs else "./zz_demo")
    if any(s is None for _, s, _ in placed):
        demo_cmd = "go run ./zz_demo"
    # 1. with patch: suite passes
    rc, out = sh("git apply %s" % patch, cwd=wt); assert rc == 0
    for attempt in range(3):
        # the suite has load-sensitive tests (allocation counts, timing): a failure is re-tried on the busy machine
        rc, out = sh("go build ./... && go test -vet=off -count=1 ./...", cwd=wt)
        if rc == 0:
            break
        meta.setdefault("suite_retries", []).append(re.findall(r"--- FAIL: (\S+)", out)[:5])
    meta["suite_passes_with_patch"] = (rc == 0)
    if rc != 0:
        meta["suite_output_tail"] = out[-1500:]
    # 2. demo fails with patch
    place()
    fails = 0
    for i in range(3):
        rc, out = sh(demo_cmd, cwd=wt, timeout=1800)
        if rc != 0:
            fails += 1
        last_with = out[-1200:]
    meta["demo_fails_with_patch"] = "%d/3" % fails
    meta["demo_output_with_patch_tail"] = last_with
    # 3. demo passes without patch
    unplace()
    sh("git checkout -- .", cwd=wt)
    place()
    passes = 0
    for i in range(3):
        rc, out = sh(demo_cmd, cwd=wt, timeout=1800)
        if rc == 0:
            passes += 1
        last_without = out[-600:]
    meta["demo_passes_without_patch"] = "%d/3" % passes
    if passes < 3:
        meta["demo_output_without_patch_tail"] = last_without
    meta["demo_cmd"] = demo_cmd
    meta["confirmed"] = bool(meta["suite_passes_with_patch"] and fails >= 2 and passes == 3)
finally:
    sh("git -C /repo worktree remove --force %s" % wt)
# 4. run the checks against the patch applied to a scratch worktree (VERIF_REPO), outputs under VERIF_OUT:
#    /repo and /verif/evidence are never touched, so several seeds can be processed at once.
results = {}
rwt = "/tmp/seedrun-" + sid
rout = "/tmp/seedrun-" + sid + "-out"
sh("git -C /repo worktree remove --force %s" % rwt)
shutil.rmtree(rout, ignore_errors=True)
rc, out = sh("git -C /repo worktree add -q --detach %s HEAD" % rwt)
assert rc == 0, out
rc, out = sh("git apply %s" % os.path.join(src, "patch.diff"), cwd=rwt)
assert rc == 0, out
ENV["VERIF_REPO"] = rwt
ENV["VERIF_OUT"] = rout
try:
    for cid in checks:
        t0 = time.time()
        rc, out = sh("./check %s --tier quick" % cid, cwd="/verif", timeout=3600)
        lines = [l for l in out.splitlines() if l.startswith(("VIOLATION", "OK ", "INCONCLUSIVE", "KNOWN-FINDING"))]
        msg = ""
        m = re.search(r"---- violation in mode (\S+) ----\n(.*?)(?=\n----|\nVIOLATION)", out, re.S)
        if m:
            msg = (m.group(1) + ": " + m.group(2))[:900]
        elif rc == 2:
            msg = " | ".join(l for l in lines if l.startswith("INCONCLUSIVE"))[:900] or out[-600:]
        results[cid] = {"exit": rc, "verdict": "VIOLATION" if rc == 1 else ("OK" if rc == 0 else "INCONCLUSIVE"), "violations": sum(1 for l in lines if l.startswith("VIOLATION")), "first_message": msg, "wall_s": round(time.time() - t0, 1)}
finally:
    sh("git -C /repo worktree remove --force %s" % rwt)
    shutil.rmtree(rout, ignore_errors=True)
if note:
    meta["history"] = note
meta["checks_run_against_patch"] = results
meta["caught_by"] = [c for c, r in results.items() if r["verdict"] == "VIOLATION"]
dst = "/verif/seeded/" + sid
os.makedirs(dst, exist_ok=True)
shutil.copy(os.path.join(src, "patch.diff"), dst)
for d, sub, pkg in placed:
    shutil.copy(d, dst)
if os.path.exists(os.path.join(src, "notes.md")):
    shutil.copy(os.path.join(src, "notes.md"), dst)
    notes = open(os.path.join(src, "notes.md")).read()
    meta["needs_to_manifest"] = notes[:1500]
json.dump(meta, open(os.path.join(dst, "meta.json"), "w"), indent=1)
print(json.dumps({k: meta[k] for k in ("seed", "confirmed", "suite_passes_with_patch", "demo_fails_with_patch", "demo_passes_without_patch", "caught_by")}, indent=1))
for c, r in results.items():
    print(c, r["verdict"], r["violations"], r["first_message"][:300].replace("\n", " | "))

#!/bin/bash
# usage: tools_soak.sh <tier> <seed>...   runs every registered check at each seed; prints one line per run
tier=$1; shift
cd "$(dirname "$0")"
for s in "$@"; do
  for id in $(python3 -c "import json;print(' '.join(sorted(json.load(open('checks.json'))['checks'])))"); do
    out=$(VERIF_SEED=$s ./check $id --tier $tier 2>&1); rc=$?
    echo "seed=$s $id rc=$rc $(echo "$out" | grep -E '^(OK|VIOLATION|INCONCLUSIVE)' | head -2 | tr '\n' ' ' | cut -c1-300)"
  done
done
